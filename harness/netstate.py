"""Shared state builder for the network / link-query properties (C07, C08, C10, C14, C20)."""
from harness.common import typed_pool, Ref, RULES, NEVER, same
from harness.driver import History

POOL4 = [{"hosts": 2}, {"extend": 0, "paths": 1}, {"extend": 1, "paths": 1}, {"hosts": 2, "paths": 1}]
POOL5 = POOL4 + [{"extend": 0, "paths": 1}]


def build(E, P, after_step=None):
    if P.get("concrete"):
        from harness.common import concrete_pool
        pool = concrete_pool(E, P["concrete"])
    else:
        pool = typed_pool(E, P.get("pool", POOL4), L=P.get("L", 1))
    defaults = P.get("defaults", ["never"])
    default = defaults[E.choose("default", len(defaults))]
    ref = Ref()
    ref.default_rule = None if default == "never" else default
    t = E.Traph(folder=None, default_webentity_creation_rule=NEVER if default == "never" else RULES[default],
                webentity_creation_rules={})
    h = History(E, t, ref, pool, P["alphabet"], P)
    h.prelude(P.get("prelude"))
    for i in range(P["n"]):
        if after_step is not None and P.get("every_step", True) and (i > 0 or P.get("prelude")):
            after_step(t, h)
        h.step(i)
    return t, h, pool


def owners(ref):
    """-> (pages PL list, owner weid list)"""
    pages = ref.page_list()
    return pages, [ref.resolve(pl)[0] for pl in pages]


def page_index(pages, lru):
    for i, pl in enumerate(pages):
        if same(pl.lru, lru):
            return i
    return -1
