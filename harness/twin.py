"""Two indexes driven in lockstep; every call's outcome must agree (C11, C15)."""
from harness.common import same


def _norm(E, v):
    """normalise an API result for comparison"""
    if hasattr(v, "created_webentities") and hasattr(v, "nb_created_pages"):
        return ("report", sorted((k, list(p)) for k, p in v.created_webentities.items()), v.nb_created_pages)
    if hasattr(v, "__next__"):
        return [_norm(E, x) for x in v]
    if isinstance(v, dict):
        items = []
        for k, x in v.items():
            items.append((k, _norm(E, x)))
        try:
            items.sort(key=lambda kv: (str(type(kv[0])), kv[0] if not hasattr(kv[0], "items") else 0))
        except TypeError:
            pass
        return ("dict", items)
    if isinstance(v, (set, frozenset)):
        return ("set", sorted(v, key=lambda x: (x is None, x)))
    if isinstance(v, (list, tuple)):
        return [_norm(E, x) for x in v]
    if type(v).__name__ == "LRUTrieNode":
        return ("node", v.block, list(v.data[1:]), v.stem())
    return v


def equalish(E, a, b):
    """-> True / False / symbolic bool"""
    a = E.wrap(a)
    b = E.wrap(b)
    if isinstance(a, (list, tuple)) and isinstance(b, (list, tuple)):
        if len(a) != len(b):
            return False
        return E.all(*[equalish(E, x, y) for x, y in zip(a, b)])
    ta = type(a).__name__ in ("SymBytes", "SymStr")
    tb = type(b).__name__ in ("SymBytes", "SymStr")
    if ta or tb or isinstance(a, (bytes, bytearray)) or isinstance(b, (bytes, bytearray)):
        if isinstance(a, (int, float, str, type(None))) or isinstance(b, (int, float, str, type(None))):
            return False
        return E.eq(a, b)
    return a == b


class Twin(object):
    """forwards every method call to both indexes and requires equal outcomes"""

    def __init__(self, E, a, b, label="twin"):
        self.__dict__["E"] = E
        self.__dict__["a"] = a
        self.__dict__["b"] = b
        self.__dict__["label"] = label
        self.__dict__["calls"] = 0

    def __getattr__(self, name):
        E, a, b, label = self.E, self.a, self.b, self.label
        fa = getattr(a, name)
        fb = getattr(b, name)
        if not callable(fa):
            return fa

        def both(*args, **kw):
            self.__dict__["calls"] += 1
            ra = ea = rb = eb = None
            try:
                ra = fa(*args, **kw)
                if hasattr(ra, "__next__"):
                    ra = [_norm(E, x) for x in ra]
            except Exception as e:
                if type(e).__name__ in ("CheckFailed", "ScenarioMismatch"):
                    raise
                ea = e
            try:
                rb = fb(*args, **kw)
                if hasattr(rb, "__next__"):
                    rb = [_norm(E, x) for x in rb]
            except Exception as e:
                eb = e
            E.check((ea is None) == (eb is None) and (ea is None or type(ea).__name__ == type(eb).__name__),
                    label + ":outcome", "%s: %s on one index, %s on the other" % (
                        name, "returned" if ea is None else type(ea).__name__, "returned" if eb is None else type(eb).__name__))
            if ea is not None:
                raise ea
            E.check(equalish(E, _norm(E, ra), _norm(E, rb)), label + ":answer", "%s answers differently on the two indexes" % name)
            return ra
        return both


def read_battery(E, tw, pool):
    """observations used to compare two indexes (every call goes through the Twin)"""
    def safe(name, *a, **kw):
        try:
            return getattr(tw, name)(*a, **kw)
        except Exception as e:
            # both indexes failed alike (checked by the Twin): equal outcomes, nothing more to compare
            if type(e).__name__ in ("CheckFailed", "ScenarioMismatch"):
                raise
            return None
    safe("pages_iter")
    safe("webentity_prefix_iter")
    safe("links_iter", out=True)
    safe("links_iter", out=False)
    safe("count_pages")
    safe("count_crawled_pages")
    safe("count_links")
    for auto in (False, True):
        safe("get_webentities_links", out=True, include_auto=auto)
        safe("get_webentities_links_slow", out=False, include_auto=auto)
    prefixes = {}
    try:
        for node, lru in tw.a.webentity_prefix_iter():
            prefixes.setdefault(node.webentity(), []).append(E.wrap(lru))
    except Exception:
        pass
    for pl in pool:
        for q in pl.prefixes():
            safe("retrieve_webentity", q.lru)
            safe("retrieve_prefix", q.lru)
            safe("get_potential_prefix", q.lru)
            safe("get_webentity_by_prefix", q.lru)
        safe("get_page_links", pl.lru)
    for weid in sorted(prefixes):
        pf = prefixes[weid]
        safe("get_webentity_pages", weid, pf)
        safe("get_webentity_crawled_pages", weid, pf)
        safe("get_webentity_pagelinks", weid, pf, include_inbound=True, include_internal=True, include_outbound=True)
        safe("get_webentity_child_webentities", weid, pf)
        safe("get_webentity_parent_webentities", weid, pf)
        safe("get_webentity_most_linked_pages", weid, pf, pages_count=2)
        safe("paginate_webentity_pages", weid, pf, page_count=1)
        safe("paginate_webentity_pagelinks", weid, pf, include_internal=True, include_outbound=True, source_page_count=1)
    safe("metrics")
