"""C18 A torn or truncated write history is refused or opens consistent."""
from harness.common import plain_pool, Ref, NEVER, same
from harness.driver import History

ID = "C18"
FUNCTIONS = ["Traph.__init__", "FileStorage.check_for_corruption", "FileStorage.__len__", "LRUTrieHeader.__ensure",
             "LinkStoreHeader.__ensure", "LRUTrieNode.read", "LRUTrieNode.write", "LRUTrie.nodes_iter", "LRUTrie.dfs_iter",
             "LinkStore.add_links", "LinkStore.weighted_link_nodes_iter", "Traph.add_links", "Traph.add_page"]
REQUIRED = ["torn:refused-or-consistent", "torn:pages-subset", "torn:links-subset", "reach:refused", "reach:opened",
            "reach:partial-append", "reach:cut-inside-request", "reach:one-store-missing", "reach:long-stem", "reach:op:links", "reach:op:we", "reach:op:clear"]
OUTSIDE = ["in-place block rewrites are atomic (as the property states)", "more than 3 write requests", "stems longer than 149 bytes",
           "real OS write ordering (the program-ordered write log of the shim file system is cut; replays rebuild real files from the same log)"]


def levels(tier):
    if tier == "quick":
        return [
            {"name": "short-n2", "pools": [[[1], [1, 1], [1, 1]]], "n": 2, "alphabet": ["page", "links", "we"], "links_batch": 1, "log_writes": True},
            {"name": "long-n1", "pools": [[[74], [74, 1], [1]], [[1, 148], [1, 100], [2]]], "sparse": True, "n": 1,
             "alphabet": ["page", "links", "we"], "links_batch": 1, "log_writes": True},
            {"name": "clear-n2", "pools": [[[1], [1, 1], [2]]], "n": 2, "prelude_ops": True, "alphabet": ["links", "clear", "page", "overwrite"],
             "links_batch": 1, "log_writes": True},
        ]
    return [
        {"name": "long-n2", "pools": [[[74], [74, 1], [1]], [[1, 148], [1, 100], [2]], [[147], [73, 75], [1]]], "sparse": True, "n": 2,
         "alphabet": ["page", "links", "we"], "links_batch": 1, "log_writes": True},
        {"name": "short-n2-wide", "pools": [[[1], [1, 1], [1, 1]]], "n": 2, "alphabet": ["page", "links", "we", "batch", "rule"], "links_batch": 1,
         "batch_targets": 1, "log_writes": True},
        {"name": "clear-n3", "pools": [[[1], [1, 1], [2]]], "n": 3, "alphabet": ["links", "clear", "overwrite"], "links_batch": 1, "log_writes": True},
        {"name": "short-n3", "pools": [[[1], [1, 1], [1, 1]]], "n": 3, "alphabet": ["page", "links"], "links_batch": 1, "log_writes": True},
    ]


def harness(E):
    P = E.params
    L = P["pools"][E.choose("pool", len(P["pools"]))]
    pool = plain_pool(E, [len(x) for x in L], L, sparse=P.get("sparse", False))
    if any(n > 73 for x in L for n in x):
        E.reach("long-stem")
    folder = E.fresh_folder("full")
    t = E.Traph(folder=folder, default_webentity_creation_rule=NEVER, webentity_creation_rules={})
    ref = Ref()
    opts = dict(P)
    opts["folder"] = folder
    h = History(E, t, ref, pool, P["alphabet"], opts)
    marks = []
    snaps = []       # model state at the completion of each request
    for i in range(P["n"]):
        h.step(i)
        marks.append(len(E.write_log()))
        snaps.append((ref.pages.copy(), [list(e) for e in ref.links]))
    h.t.close()
    log = E.write_log()
    # the cut: `w` events are complete; optionally a part of event w (an append) persisted too
    w = E.choose("cut", len(log) + 1)
    if w not in marks and w not in (0, len(log)):
        E.reach("cut-inside-request")
    torn = None
    if w < len(log) and log[w][1] != "create" and log[w][3]:
        if E.flag("partial"):
            E.reach("partial-append")
            n = len(log[w][2])
            r = E.int("r", 1, n - 1)
            torn = (log[w], r)
    # "the completed history": the requests up to and including the one the cut falls in
    done = len(marks) - 1
    for i, m in enumerate(marks):
        if w <= m:
            done = i
            break
    fin_pages, fin_links = snaps[done]

    def fin_weight(s_lru, t_lru):
        for e in fin_links:
            if same(e[0].lru, s_lru) and same(e[1].lru, t_lru):
                return e[2]
        return 0
    cutdir = E.fresh_folder("cut")
    E.materialise(cutdir, log[:w], torn)
    created = [ev[0] for ev in log[:w] if ev[1] == "create"]
    if len(set(created)) == 1:
        E.reach("one-store-missing")
    ok, t2 = E.call("open", lambda: E.Traph(folder=cutdir, default_webentity_creation_rule=NEVER, webentity_creation_rules={}))
    if not ok:
        E.reach("refused")
        E.check(True, "torn:refused-or-consistent")
        return
    E.reach("opened")
    # it opened: everything must be traversable and queryable without failure ...
    def q(name, fn, *a, **kw):
        ok, r = E.call(name, fn, *a, _allowed=(), **kw)
        return r
    pages = q("pages_iter", lambda: [(E.wrap(lru), node.is_crawled()) for node, lru in t2.pages_iter()])
    q("webentity_prefix_iter", lambda: [lru for node, lru in t2.webentity_prefix_iter()])
    outl = q("links_iter", lambda: list(t2.links_iter(out=True)))
    inl = q("links_iter", lambda: list(t2.links_iter(out=False)))
    q("get_webentities_links", t2.get_webentities_links)
    q("get_webentities_links_slow", t2.get_webentities_links_slow)
    q("count_pages", t2.count_pages)
    q("count_crawled_pages", t2.count_crawled_pages)
    q("count_links", t2.count_links)
    q("links_metrics", t2.links_metrics)
    E.check(True, "torn:refused-or-consistent")
    # ... and report only pages and links that the completed history also reports
    for lru, crawled in pages:
        E.check(fin_pages.has(lru), "torn:pages-subset", "a page is reported that the completed history does not report")
        links = q("get_page_links", t2.get_page_links, lru)
        for s, d, wgt in links:
            E.check(wgt <= fin_weight(E.wrap(s), E.wrap(d)), "torn:links-subset",
                    "link weight %r exceeds the %d submissions of the completed history" % (wgt, fin_weight(E.wrap(s), E.wrap(d))))
    for a, b in outl:
        E.check(fin_weight(E.wrap(a), E.wrap(b)) > 0, "torn:links-subset", "outbound enumeration reports a link never submitted")
    for a, b in inl:
        E.check(fin_weight(E.wrap(b), E.wrap(a)) > 0, "torn:links-subset", "inbound enumeration reports a link never submitted")
    E.observe("pages", [[l, c] for l, c in pages])
    t2.close()
