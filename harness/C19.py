"""C19 Storage growth is exactly accounted for; re-adding allocates nothing."""
from harness.common import plain_pool, Ref, NEVER
from harness.driver import History
from harness import rawtrie

ID = "C19"
FUNCTIONS = ["LRUTrieNode.write", "LRUTrieNode.set_stem", "helpers.detailed_chunks_iter", "LRUTrie.add_lru",
             "LinkStore.add_links", "Traph.metrics", "LRUTrie.metrics", "Traph.count_links"]
REQUIRED = ["reach:op:clear", "growth:trie-blocks", "growth:link-blocks", "metrics:nb_pages", "metrics:nb_tail_nodes", "metrics:nb_links",
            "raw:unreferenced-block", "reach:tail1", "reach:tail2", "reach:exact-multiple", "reach:resubmission"]
OUTSIDE = ["long stems have symbolic bytes only next to the block boundaries and at both ends (sparse), except in the thorough level n1-full-bytes", "stems longer than 296 bytes (more than 4 blocks)", "more than 3 pool LRUs / 3 write requests"]

PAYLOAD = 74   # LRU_TRIE_STEM_SIZE, re-read from the loaded module in the harness


def levels(tier):
    alpha = ["page", "links", "we", "rule", "clear"]
    # payload lengths (stem = payload + '|'): 73->74 bytes (exactly one block), 74->75 (one tail byte),
    # 147->148 (exactly two blocks), 148->149 (two tails), 221->222 (exactly three blocks)
    if tier == "quick":
        pools = [
            [[74], [74, 1], [1]],
            [[73], [147], [1, 148]],
            [[1], [1, 100], [1, 100]],
            [[221], [1], [2, 295]],
        ]
        return [
            {"name": "n1", "pools": pools, "sparse": True, "n": 1, "alphabet": alpha, "backends": ["file", "memory"], "links_batch": 2},
            {"name": "n2", "pools": pools, "sparse": True, "n": 2, "alphabet": ["page", "links", "we"], "backends": ["file"], "links_batch": 1},
            {"name": "clear-n3", "pools": [[[1], [1, 1], [2]]], "n": 3, "alphabet": ["page", "links", "clear"], "backends": ["file", "memory"], "links_batch": 1},
            {"name": "restarts", "pools": [[[1], [1], [1], [1]]], "n": 1, "backends": ["file"], "alphabet": ["page", "links"], "links_batch": 1,
             "prelude": [["links", [[0, 1]]], ["reopen"], ["page", 2, False], ["page", 3, False], ["reopen"]]},
            {"name": "batch-n1", "pools": [[[1], [1, 1], [2]]], "n": 1, "alphabet": ["batch"], "batch_sources": 2, "batch_targets": 2,
             "backends": ["memory"], "yield_frequencies": [50, 1]},
        ]
    pools = [
        [[74], [74, 1], [1]],
        [[73], [147], [1, 148]],
        [[1], [1, 100], [1, 100]],
        [[221], [1, 222], [74, 74]],
        [[2], [75, 1], [75, 146]],
        [[148], [148], [148, 74]],
    ]
    return [
        {"name": "n1-all", "pools": pools, "sparse": True, "n": 1, "alphabet": alpha, "backends": ["file", "memory"], "links_batch": 2},
        {"name": "n2-wide", "pools": pools, "sparse": True, "n": 2, "alphabet": alpha, "backends": ["file", "memory"], "links_batch": 2},
        {"name": "n1-full-bytes", "pools": pools[:3], "sparse": False, "n": 1, "alphabet": alpha, "backends": ["file"], "links_batch": 2},
        {"name": "n3", "pools": pools[:3], "sparse": True, "n": 3, "alphabet": ["page", "links", "we"], "backends": ["file"], "links_batch": 1},
    ]


def open_index(E, backend, **kw):
    if backend == "memory":
        return E.Traph(folder=None, **kw)
    return E.Traph(folder=E.fresh_folder("idx"), **kw)


def account(E, t, ref):
    nodemod = E.module("traph.lru_trie.node")
    size = nodemod.LRU_TRIE_STEM_SIZE
    raw = E.raw_store(t, "trie")
    heads, nblocks, ntails = rawtrie.parse_trie(E, raw)
    want = 1
    want_tails = 0
    for lru, pl in ref.known.items():
        ln = len(pl.stems[-1])
        k = (ln + size - 1) // size
        if k == 2:
            E.reach("tail1")
        if k >= 3:
            E.reach("tail2")
        if ln % size == 0:
            E.reach("exact-multiple")
        want += k
        want_tails += k - 1
    E.check(nblocks == want, "growth:trie-blocks", "trie store holds %d blocks, the named stem-prefixes need %d" % (nblocks, want))
    rawtrie.check_references(E, heads, nblocks)
    rawl = E.raw_store(t, "links")
    stubs = rawtrie.parse_links(E, rawl)
    E.check(1 + len(stubs) == 1 + 2 * ref.nlinks, "growth:link-blocks",
            "link store holds %d stubs for %d submitted links" % (len(stubs), ref.nlinks))
    if nblocks <= 1:
        E.observe("blocks", [nblocks, len(stubs)])
        return       # empty index: metrics() is not defined on it (division by zero), nothing more to account for
    ok, m = E.call("metrics", t.metrics, _allowed=())
    E.check(m["lru_trie"]["nb_pages"] == len(ref.pages), "metrics:nb_pages",
            "metrics say %r pages, model %d" % (m["lru_trie"]["nb_pages"], len(ref.pages)))
    E.check(m["lru_trie"]["nb_tail_nodes"] == want_tails, "metrics:nb_tail_nodes",
            "metrics say %r tail blocks, model %d" % (m["lru_trie"]["nb_tail_nodes"], want_tails))
    E.check(m["link_store"]["nb_links"] == ref.nlinks, "metrics:nb_links",
            "metrics say %r links, %d submitted" % (m["link_store"]["nb_links"], ref.nlinks))
    ok, c = E.call("count_links", t.count_links, _allowed=())
    E.check(c == ref.nlinks, "metrics:nb_links", "count_links=%r, %d submitted" % (c, ref.nlinks))
    E.observe("blocks", [nblocks, len(stubs)])


def harness(E):
    P = E.params
    L = P["pools"][E.choose("pool", len(P["pools"]))]
    shape = [len(x) for x in L]
    pool = plain_pool(E, shape, L, sparse=P.get("sparse", False))
    backend = P["backends"][E.choose("backend", len(P["backends"]))]
    opts = dict(P)
    if backend == "memory":
        t = E.Traph(folder=None, default_webentity_creation_rule=NEVER, webentity_creation_rules={})
    else:
        opts["folder"] = E.fresh_folder("idx")
        t = E.Traph(folder=opts["folder"], default_webentity_creation_rule=NEVER, webentity_creation_rules={})
    ref = Ref()
    h = History(E, t, ref, pool, P["alphabet"], opts)
    h.prelude(P.get("prelude"))
    seen = 0
    for i in range(P["n"]):
        before = len(ref.known)
        kind, info = h.step(i)
        t = h.t
        if len(ref.known) == before and i > 0:
            E.reach("resubmission")
        account(E, t, ref)
    if backend != "memory":
        h.t.close()
