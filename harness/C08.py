"""C08 Per-webentity link queries agree with page links and resolution."""
from harness.netstate import build, owners, page_index, POOL4
from harness.C03 import match_triples

ID = "C08"
FUNCTIONS = ["Traph.get_webentity_pagelinks_iter", "Traph.get_webentity_outlinks_iter", "Traph.get_webentity_inlinks_iter",
             "Traph.get_webentity_outdegree", "Traph.get_webentity_indegree", "Traph.get_webentity_degree",
             "LRUTrie.webentity_dfs_iter", "LRUTrie.windup_lru", "LRUTrie.windup_lru_for_webentity",
             "LinkStore.weighted_link_nodes_iter", "LinkStore.deduped_link_nodes_iter"]
REQUIRED = ["pagelinks:count", "pagelinks:weight", "cited", "citing", "degrees", "reach:internal", "reach:outbound", "reach:inbound",
            "reach:outbound-to-nowhere", "reach:weight2", "reach:op:links", "reach:op:we"]
OUTSIDE = ["more than 4 pool LRUs, more than 3 free requests after the template"]

TPL = [["links", [[1, 3], [1, 3], [3, 1], [2, 2], [1, 2], [3, 0]]], ["page", 1, True], ["we", [[0, 3]]]]


def levels(tier):
    if tier == "quick":
        return [
            {"name": "n2", "n": 2, "alphabet": ["links", "we", "addprefix"], "links_batch": 1,
             "defaults": ["never", "domain"], "pool": [POOL4[0], POOL4[1], POOL4[3]]},
            {"name": "tpl-n1", "n": 1, "prelude": TPL, "alphabet": ["we", "addprefix", "moveprefix", "delwe", "links"], "links_batch": 1, "defaults": ["never"]},
            {"name": "nested-n1", "n": 1, "prelude": TPL + [["we", [[1, 4]]]], "alphabet": ["delwe", "rmprefix", "moveprefix", "addprefix"], "defaults": ["never"]},
        ]
    return [
        {"name": "tpl-n2", "n": 2, "prelude": TPL, "alphabet": ["we", "addprefix", "moveprefix", "delwe", "links"], "links_batch": 1,
         "defaults": ["never", "domain"]},
        {"name": "nested-n2", "n": 2, "prelude": TPL + [["we", [[1, 4]]]], "alphabet": ["delwe", "rmprefix", "moveprefix", "addprefix", "links"],
         "links_batch": 1, "defaults": ["never"]},
        {"name": "n3", "n": 3, "alphabet": ["links", "we", "addprefix"], "links_batch": 1, "defaults": ["never", "domain"],
         "pool": [POOL4[0], POOL4[1], POOL4[3]]},
        {"name": "n2-wide", "n": 2, "alphabet": ["links", "we", "addprefix", "batch", "page", "delwe"], "links_batch": 1,
         "batch_targets": 1, "defaults": ["never", "domain"]},
    ]


def battery(E, t, h):
    ref = h.ref
    pages, own = owners(ref)
    links = [(s.lru, d.lru, w, own[page_index(pages, s.lru)], own[page_index(pages, d.lru)]) for s, d, w in ref.links]
    for weid, prefix_lrus in h.alive():
        internal = [(s, d, w) for (s, d, w, a, b) in links if a == weid and b == weid]
        outbound = [(s, d, w) for (s, d, w, a, b) in links if a == weid and b != weid]
        inbound = [(s, d, w) for (s, d, w, a, b) in links if b == weid and a != weid]
        if internal:
            E.reach("internal")
        if outbound:
            E.reach("outbound")
        if inbound:
            E.reach("inbound")
        for (s, d, w, a, b) in links:
            if a == weid and b is None:
                E.reach("outbound-to-nowhere")
            if w > 1:
                E.reach("weight2")
        for inb in (False, True):
            for inte in (False, True):
                for outb in (False, True):
                    ok, got = E.call("get_webentity_pagelinks", t.get_webentity_pagelinks, weid, list(prefix_lrus),
                                     include_inbound=inb, include_internal=inte, include_outbound=outb)
                    if not (inb or inte or outb):
                        E.check(not ok, "pagelinks:switches", "a query with every switch off must be refused")
                        continue
                    E.check(ok, "pagelinks:refused", "get_webentity_pagelinks refused the webentity's own prefixes")
                    exp = (internal if inte else []) + (outbound if outb else []) + (inbound if inb else [])
                    match_triples(E, got, exp, "pagelinks")
        cited = set(b for (s, d, w, a, b) in links if a == weid and b is not None)
        citing = set(a for (s, d, w, a, b) in links if b == weid and a is not None)
        ok, got = E.call("get_webentity_outlinks", t.get_webentity_outlinks, weid, list(prefix_lrus))
        E.check(ok and set(x for x in got if x is not None) == cited, "cited", "cited webentities %s, model %s" % (sorted(x for x in got if x) if ok else got, sorted(cited)))
        ok, got2 = E.call("get_webentity_inlinks", t.get_webentity_inlinks, weid, list(prefix_lrus))
        E.check(ok and set(x for x in got2 if x is not None) == citing, "citing", "citing webentities %s, model %s" % (sorted(x for x in got2 if x) if ok else got2, sorted(citing)))
        ok, od = E.call("get_webentity_outdegree", t.get_webentity_outdegree, weid, list(prefix_lrus))
        ok2, idg = E.call("get_webentity_indegree", t.get_webentity_indegree, weid, list(prefix_lrus))
        ok3, dg = E.call("get_webentity_degree", t.get_webentity_degree, weid, list(prefix_lrus))
        E.check(ok and ok2 and ok3 and od == len(got) and idg == len(got2) and dg == od + idg, "degrees",
                "degree helpers %r/%r/%r disagree with the cited/citing sets" % (od, idg, dg))
        E.observe("we%d" % weid, [sorted(cited), sorted(citing)])


def harness(E):
    # the battery runs after every free request (query, write, query again), not only at the end
    t, h, pool = build(E, E.params, after_step=lambda t_, h_: battery(E, t_, h_))
    battery(E, t, h)
