"""C17 Prefix variations form closed classes and are attached as a whole."""
from harness.common import PL, same, NEVER, RULES, HOST_EXCL

ID = "C17"
FUNCTIONS = ["helpers.lru_variations", "helpers.https_variation", "Traph.expand_prefix", "Traph.add_page"]
REQUIRED = ["variations:first-is-input", "variations:distinct", "variations:foreign-change", "variations:closed",
            "reach:hosts0", "reach:hosts2", "reach:www-last", "reach:path-stem"]
OUTSIDE = ["more than 3 host stems, host payloads other than 1, 3, 4 (thorough: 5) bytes, path payloads longer than 8 bytes",
           "port stems other than t:80", "LRUs whose host stems are not contiguous or that end in two h:www stems (excluded by the statement)"]


def levels(tier):
    if tier == "quick":
        return [
            {"name": "shape", "mode": "pure", "hosts": [0, 1, 2, 3], "hostL": [1, 3, 4], "paths": [[], [6]], "port": [0, 1]},
            {"name": "auto", "mode": "auto", "hosts": [2, 3], "hostL": [1], "paths": [[], [1], [1, 1, 1]], "port": [0, 1], "rules": ["domain", "path1"]},
        ]
    return [
        {"name": "shape", "mode": "pure", "hosts": [0, 1, 2, 3], "hostL": [1, 3, 4, 5], "paths": [[], [6], [7], [1, 6]], "port": [0, 1]},
        {"name": "long-path", "mode": "pure", "hosts": [1, 2], "hostL": [3], "paths": [[8], [6, 6], [2, 7]], "port": [0]},
        {"name": "auto", "mode": "auto", "hosts": [1, 2, 3], "hostL": [1, 3], "paths": [[], [1], [6]], "port": [0, 1],
         "rules": ["domain", "subdomain", "path1"]},
    ]


def build(E, P):
    """-> (scheme bytes, alt scheme bytes, port stems, host stems, path stems)"""
    https = E.flag("https")
    sch = E.const(b"s:https|") if https else E.const(b"s:http|")
    alt = E.const(b"s:http|") if https else E.const(b"s:https|")
    port = [E.const(b"t:80|")] if P["port"][E.choose("port", len(P["port"]))] else []
    nh = P["hosts"][E.choose("nh", len(P["hosts"]))]
    E.reach("hosts%d" % min(nh, 2))
    hosts = []
    for h in range(nh):
        ln = P["hostL"][E.choose("hl%d" % h, len(P["hostL"]))]
        excl = HOST_EXCL if P.get("mode") == "auto" else (0x7C,)
        hosts.append(E.const(b"h:") + E.bytes("h%d" % h, ln, exclude=excl) + E.const(b"|"))
    pl = P["paths"][E.choose("np", len(P["paths"]))]
    paths = []
    for q, ln in enumerate(pl):
        E.reach("path-stem")
        paths.append(E.const(b"p:") + E.bytes("q%d" % q, ln) + E.const(b"|"))
    return sch, alt, port, hosts, paths


def cat(E, parts):
    out = E.const(b"")
    for p in parts:
        out = out + p
    return out


def member_of(E, x, forms):
    for f in forms:
        if same(f, x):
            return True
    return False


def harness(E):
    P = E.params
    sch, alt, port, hosts, paths = build(E, P)
    www = E.const(b"h:www|")
    if len(hosts) >= 2:
        # the statement excludes LRUs ending in two www host stems
        E.assume(E.neg(E.all(E.eq(hosts[-1], www), E.eq(hosts[-2], www))))
    lru = cat(E, [sch] + port + hosts + paths)
    t = E.Traph(folder=None, default_webentity_creation_rule=NEVER, webentity_creation_rules={})
    if P["mode"] == "auto":
        return auto(E, P, lru, sch, alt, port, hosts, paths)

    ok, vs = E.call("expand_prefix", t.expand_prefix, lru, _allowed=())
    vs = [E.wrap(v) for v in vs]
    E.check(len(vs) >= 1 and same(vs[0], lru), "variations:first-is-input")
    for i in range(len(vs)):
        for j in range(i):
            E.check(not same(vs[i], vs[j]), "variations:distinct", "entries %d and %d are equal" % (j, i))
    # the only forms a variation may take
    forms = [lru, cat(E, [alt] + port + hosts + paths)]
    if hosts:
        if same(hosts[-1], www):
            E.reach("www-last")
            toggled = hosts[:-1]
        else:
            toggled = hosts + [www]
        forms.append(cat(E, [sch] + port + toggled + paths))
        forms.append(cat(E, [alt] + port + toggled + paths))
    for i, v in enumerate(vs):
        E.check(member_of(E, v, forms), "variations:foreign-change",
                "entry %d changes something other than the scheme stem / trailing h:www" % i)
    # closure
    for i, v in enumerate(vs[1:], 1):
        ok, ws = E.call("expand_prefix(member)", t.expand_prefix, v, _allowed=())
        ws = [E.wrap(w) for w in ws]
        E.check(len(ws) == len(vs), "variations:closed", "member %d expands to %d entries, the prefix to %d" % (i, len(ws), len(vs)))
        for w in ws:
            E.check(member_of(E, w, vs), "variations:closed", "member %d expands to an entry outside the class" % i)
    E.observe("variations", vs)


def auto(E, P, lru, sch, alt, port, hosts, paths):
    """a webentity created automatically from one page is the same whichever variation was seen first"""
    rn = P["rules"][E.choose("rule", len(P["rules"]))]
    www = E.const(b"h:www|")
    others = [cat(E, [alt] + port + hosts + paths)]
    if len(hosts) >= 2:
        if same(hosts[-1], www):
            E.reach("www-last")
            if len(hosts) >= 3:
                others.append(cat(E, [sch] + port + hosts[:-1] + paths))
        else:
            others.append(cat(E, [sch] + port + hosts + [www] + paths))
    other = others[E.choose("which", len(others))]
    sets = []
    for k, first in enumerate((lru, other)):
        t = E.Traph(folder=None, default_webentity_creation_rule=RULES[rn], webentity_creation_rules={})
        ok, rep = E.call("add_page", t.add_page, first, _allowed=())
        created = []
        for weid, prefixes in rep.created_webentities.items():
            created.extend(E.wrap(p) for p in prefixes)
            for p in prefixes:
                ok, owner = E.call("get_webentity_by_prefix", t.get_webentity_by_prefix, p)
                E.check(ok and owner == weid, "auto:attached", "a prefix reported as attached to webentity %d cannot be found attached to it" % weid)
        sets.append(created)
    a, b = sets
    E.check(len(a) == len(b), "auto:same-class", "first-seen variation changes the number of attached prefixes (%d vs %d)" % (len(a), len(b)))
    for x in a:
        E.check(member_of(E, x, b), "auto:same-class", "a prefix attached from one variation is not attached from the other")
    E.observe("created", sets)
