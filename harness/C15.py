"""C15 In-memory and on-disk indexes are observationally equivalent."""
from harness.common import typed_pool, plain_pool, Ref, RULES, NEVER, same
from harness.driver import History
from harness.twin import Twin, read_battery
from harness.netstate import POOL4

ID = "C15"
FUNCTIONS = ["Traph.__init__", "MemoryStorage.read", "MemoryStorage.write", "FileStorage.read", "FileStorage.write",
             "FileStorage.__len__", "FileStorage.map", "MemMapStorage.read", "LRUTrieNode.read", "LRUTrieNode.write",
             "Traph.add_webentity_creation_rule", "LinkStore.count_links"]
REQUIRED = ["twin:outcome", "twin:answer", "stores:trie-bytes", "stores:link-bytes", "mmap:block", "reach:anchored-rule",
            "reach:overwrite", "reach:long-stem", "reach:op:page", "reach:op:links", "reach:op:we", "reach:op:rule", "reach:op:clear"]
OUTSIDE = ["more than 3 write requests", "real OS files and mmap (in-memory file system shim; replays use real files and the real mmap)"]

TPOOL = [POOL4[0], POOL4[1], POOL4[3]]


def levels(tier):
    alpha = ["page", "links", "we", "rule", "batch", "addprefix", "pages"]
    if tier == "quick":
        return [
            {"name": "typed-n1", "kind": "typed", "n": 1, "alphabet": ["page", "links", "we", "rule", "batch"], "links_batch": 1, "batch_targets": 1,
             "defaults": ["domain"], "anchored": [None, (1, 3, "path1")], "overwrite": [False, True], "rule_patterns": ["path1"]},
            {"name": "typed-n2", "kind": "typed", "n": 2, "alphabet": ["page", "we"], "defaults": ["domain"], "anchored": [(1, 3, "path1")],
             "overwrite": [False], "tpool": [0, 1]},
            {"name": "clear-n3", "kind": "typed", "n": 3, "alphabet": ["page", "links", "clear"], "links_batch": 1, "defaults": ["domain"],
             "anchored": [None], "overwrite": [False], "tpool": [0, 1]},
            {"name": "clear-rules-n2", "kind": "typed", "n": 2, "alphabet": ["page", "clear"], "defaults": ["domain"],
             "anchored": [(1, 3, "path1")], "overwrite": [False], "tpool": [0, 1], "clear_noargs": True},
            {"name": "populated-folder", "kind": "typed", "n": 1, "alphabet": ["page", "links"], "links_batch": 1, "defaults": ["domain"],
             "anchored": [None], "overwrite": [True], "tpool": [0, 1], "prepopulate": True},
            {"name": "long-n1", "kind": "plain", "pools": [[[74], [74, 1], [1]], [[73], [147], [1, 148]]], "sparse": True, "n": 1,
             "alphabet": ["page", "links", "we", "rule"], "links_batch": 2, "overwrite": [False]},
        ]
    return [
        {"name": "long-n2", "kind": "plain", "pools": [[[74], [74, 1], [1]], [[73], [147], [1, 148]]], "sparse": True, "n": 2,
         "alphabet": ["page", "links", "we"], "links_batch": 1, "overwrite": [False]},
        {"name": "typed-n2-wide", "kind": "typed", "n": 2, "alphabet": ["page", "links", "we", "rule", "batch"], "links_batch": 1, "batch_targets": 1,
         "defaults": ["domain"], "anchored": [None, (1, 3, "path1")], "overwrite": [False], "rule_patterns": ["path1"]},
        {"name": "clear-n4", "kind": "typed", "n": 4, "alphabet": ["page", "links", "clear"], "links_batch": 1, "defaults": ["domain"],
         "anchored": [None], "overwrite": [False], "tpool": [0, 1]},
        {"name": "typed-n3", "kind": "typed", "n": 3, "alphabet": ["page", "we", "links"], "links_batch": 1, "defaults": ["domain"],
         "anchored": [None, (1, 3, "path1")], "overwrite": [False], "tpool": [0, 1]},
    ]


def check_maps(E, fil):
    """the memory-mapped reader returns the same blocks as the file"""
    for which, st in (("trie", fil.lru_trie_storage), ("links", fil.links_store_storage)):
        raw = E.raw_store(fil, which)
        ok, mp = E.call("map", st.map, _allowed=())
        bs = st.block_size
        for b in range(0, len(raw), bs):
            ok, blk = E.call("map.read", mp.read, b, _allowed=())
            E.check(blk is not None and E.eq(E.wrap(blk), raw[b:b + bs]), "mmap:block", "memory-mapped read of %s block %d differs" % (which, b))
        ok, past = E.call("map.read", mp.read, len(raw), _allowed=())
        E.check(past is None, "mmap:block", "memory-mapped read past the end returns data")
        # the mapping is deliberately not released: the next request must not be served from it


def harness(E):
    P = E.params
    overwrite = P["overwrite"][E.choose("overwrite", len(P["overwrite"]))]
    if overwrite:
        E.reach("overwrite")
    ref = Ref()
    rules = {}
    if P["kind"] == "typed":
        pool = typed_pool(E, [TPOOL[i] for i in P.get("tpool", [0, 1, 2])], L=1)
        default = P["defaults"][E.choose("default", len(P["defaults"]))]
        ref.default_rule = default
        anch = P["anchored"][E.choose("anchored", len(P["anchored"]))]
        if anch is not None:
            E.reach("anchored-rule")
            li, k, rn = anch
            a = pool[li].prefix(min(k, len(pool[li].stems)))
            rules[a.lru] = RULES[rn]
            ref.name(a)
            ref.rules.set(a.lru, rn)
        dpat = RULES[default]
    else:
        L = P["pools"][E.choose("pool", len(P["pools"]))]
        pool = plain_pool(E, [len(x) for x in L], L, sparse=P.get("sparse", False))
        E.reach("long-stem")
        dpat = NEVER
    folder = E.fresh_folder("idx")
    if P.get("prepopulate"):
        # the folder already holds an index with pages and links: overwrite=True must start from nothing
        old = E.Traph(folder=folder, default_webentity_creation_rule=dpat, webentity_creation_rules={})
        old.add_links([(pool[0].lru, pool[1].lru), (pool[1].lru, pool[0].lru), (pool[0].lru, pool[0].lru)])
        old.close()
    mem = E.Traph(folder=None, overwrite=overwrite, default_webentity_creation_rule=dpat, webentity_creation_rules=dict(rules))
    ok, fil = E.call("open", lambda: E.Traph(folder=folder, overwrite=overwrite, default_webentity_creation_rule=dpat,
                                              webentity_creation_rules=dict(rules)), _allowed=())
    tw = Twin(E, mem, fil)
    h = History(E, tw, ref, pool, P["alphabet"], P)
    for i in range(P["n"]):
        h.step(i)
        check_maps(E, fil)
    read_battery(E, tw, pool)
    # identical store contents
    mt, ml = E.raw_store(mem, "trie"), E.raw_store(mem, "links")
    ft, fl = E.raw_store(fil, "trie"), E.raw_store(fil, "links")
    E.check(E.eq(mt, ft), "stores:trie-bytes", "trie stores differ (%d vs %d bytes)" % (len(mt), len(ft)))
    E.check(E.eq(ml, fl), "stores:link-bytes", "link stores differ (%d vs %d bytes)" % (len(ml), len(fl)))
    # the memory-mapped reader returns the same blocks
    for which, raw, st in (("trie", ft, fil.lru_trie_storage), ("links", fl, fil.links_store_storage)):
        ok, mp = E.call("map", st.map, _allowed=())
        bs = st.block_size
        for b in range(0, len(raw), bs):
            ok, blk = E.call("map.read", mp.read, b, _allowed=())
            E.check(blk is not None and E.eq(E.wrap(blk), raw[b:b + bs]), "mmap:block", "memory-mapped read of %s block %d differs" % (which, b))
        ok, past = E.call("map.read", mp.read, len(raw), _allowed=())
        E.check(past is None, "mmap:block", "memory-mapped read past the end returns data")
        mp.release()
    E.observe("sizes", [len(ft), len(fl)])
    fil.close()
