"""C03 Link multigraph fidelity with inbound/outbound symmetry."""
from harness.common import plain_pool, Ref, same, NEVER
from harness.driver import History

ID = "C03"
FUNCTIONS = ["Traph.add_links", "Traph.index_batch_crawl", "LinkStore.add_links", "Traph.get_page_links",
             "Traph.links_iter", "Traph.count_links", "Traph.get_page_indegree", "Traph.get_page_outdegree",
             "Traph.get_page_degree"]
REQUIRED = ["reach:op:links", "reach:op:batch", "page_links:count", "links_iter:out:count", "links_iter:in:count",
            "count_links", "degree", "reach:self-link", "reach:repeated-link", "reach:empty-targets"]
OUTSIDE = ["more than 3 pool LRUs / 3 write requests / 2 pairs per add_links / 2 sources x 2 targets per crawl batch"]


def levels(tier):
    alpha = ["links", "batch", "page", "we"]
    if tier == "quick":
        return [
            {"name": "n1", "shapes": [[1, 2, 2]], "n": 1, "alphabet": alpha, "links_batch": 2, "batch_sources": 2, "batch_targets": 2},
            {"name": "n2", "shapes": [[1, 2, 2]], "n": 2, "alphabet": alpha, "links_batch": 1, "batch_sources": 1, "batch_targets": 2},
            {"name": "recrawl", "shapes": [[1, 2, 2]], "n": 1, "prelude": [["batch", 0, [1]]], "alphabet": ["batch"], "batch_sources": 2, "batch_targets": 2,
             "yield_frequencies": [50, 1]},
            {"name": "recrawl3", "shapes": [[1, 2, 2]], "n": 1, "prelude": [["page", 0, True]], "alphabet": ["batch"], "batch_sources": 3, "batch_targets": 1,
             "yield_frequencies": [2]},
        ]
    return [
        {"name": "n1-wide", "shapes": [[1, 2, 2]], "n": 1, "alphabet": alpha, "links_batch": 3, "batch_sources": 2, "batch_targets": 2,
         "yield_frequencies": [50, 1]},
        {"name": "n1-2shapes", "shapes": [[2, 2, 2], [1, 2, 3]], "n": 1, "alphabet": alpha, "links_batch": 2, "batch_sources": 1, "batch_targets": 2},
        {"name": "recrawl-wide", "shapes": [[1, 2, 2]], "n": 1, "prelude": [["batch", 0, [1, 2]]], "alphabet": ["batch"], "batch_sources": 2,
         "batch_targets": 2, "yield_frequencies": [50, 1]},
        {"name": "recrawl3-wide", "shapes": [[1, 2, 2]], "n": 1, "prelude": [["page", 0, True]], "alphabet": ["batch"], "batch_sources": 3, "batch_targets": 2,
         "yield_frequencies": [50]},
        {"name": "n2-wide", "shapes": [[1, 2, 2]], "n": 2, "alphabet": ["links", "batch", "page"], "links_batch": 2, "batch_sources": 1, "batch_targets": 2},
        {"name": "recrawl-twice", "shapes": [[1, 2, 2]], "n": 1, "prelude": [["batch", 1, [0]], ["batch", 0, [2]]], "alphabet": ["batch"], "batch_sources": 2,
         "batch_targets": 2, "yield_frequencies": [50, 1]},
        {"name": "n3", "shapes": [[1, 2, 2]], "n": 3, "alphabet": ["links", "batch"], "links_batch": 1, "batch_sources": 1, "batch_targets": 1},
    ]


def match_triples(E, got, expected, label):
    """got: [[s,t,w]...] from the implementation; expected: [(s_lru,t_lru,w)...] pairwise distinct (s,t)"""
    E.check(len(got) == len(expected), label + ":count", "%d entries, model has %d" % (len(got), len(expected)))
    used = [False] * len(expected)
    for g in got:
        gs, gt, gw = E.wrap(g[0]), E.wrap(g[1]), g[2]
        hit = -1
        for i, (s, t, w) in enumerate(expected):
            if same(s, gs) and same(t, gt):
                hit = i
                break
        E.check(hit >= 0, label + ":unknown-link", "a reported link was never submitted")
        E.check(not used[hit], label + ":duplicate", "a link is reported twice")
        used[hit] = True
        E.check(gw == expected[hit][2], label + ":weight", "weight %r reported, %d submitted" % (gw, expected[hit][2]))


def oracle(E, t, ref):
    pages = ref.page_list()
    links = [(e[0].lru, e[1].lru, e[2]) for e in ref.links]
    for e in ref.links:
        if same(e[0].lru, e[1].lru):
            E.reach("self-link")
        if e[2] > 1:
            E.reach("repeated-link")
    ok, n = E.call("count_links", t.count_links)
    E.check(ok and n == ref.nlinks, "count_links", "count_links=%r submissions=%d" % (n, ref.nlinks))
    for p in pages:
        lru = p.lru
        outs = [(s, d, w) for (s, d, w) in links if same(s, lru) and not same(d, lru)]
        ints = [(s, d, w) for (s, d, w) in links if same(s, lru) and same(d, lru)]
        ins = [(s, d, w) for (s, d, w) in links if same(d, lru) and not same(s, lru)]
        for inb in (False, True):
            for inte in (False, True):
                for outb in (False, True):
                    ok, got = E.call("get_page_links", t.get_page_links, lru, include_inbound=inb,
                                     include_internal=inte, include_outbound=outb)
                    E.check(ok, "page_links:refused")
                    exp = (outs if outb else []) + (ints if inte else []) + (ins if inb else [])
                    match_triples(E, got, exp, "page_links")
        for weighted in (False, True):
            f = (lambda xs: sum(w for _, _, w in xs)) if weighted else len
            ok, v = E.call("get_page_indegree", t.get_page_indegree, lru, weighted=weighted)
            E.check(ok and v == f(ins), "degree", "indegree(weighted=%s)=%r model=%d" % (weighted, v, f(ins)))
            ok, v = E.call("get_page_outdegree", t.get_page_outdegree, lru, weighted=weighted)
            E.check(ok and v == f(outs), "degree", "outdegree(weighted=%s)=%r model=%d" % (weighted, v, f(outs)))
            ok, v = E.call("get_page_degree", t.get_page_degree, lru, weighted=weighted)
            E.check(ok and v == f(ins) + f(outs) + f(ints), "degree", "degree(weighted=%s)=%r model=%d" % (weighted, v, f(ins) + f(outs) + f(ints)))
    # enumerations: each distinct (s,t) once; the inbound enumeration is the transpose
    ok, out = E.call("links_iter", lambda: list(t.links_iter(out=True)))
    E.check(ok, "links_iter:refused")
    match_triples(E, [[a, b, 0] for a, b in out], [(s, d, 0) for (s, d, w) in links], "links_iter:out")
    ok, inn = E.call("links_iter", lambda: list(t.links_iter(out=False)))
    E.check(ok, "links_iter:refused")
    match_triples(E, [[b, a, 0] for a, b in inn], [(s, d, 0) for (s, d, w) in links], "links_iter:in")
    E.observe("links_out", [[a, b] for a, b in out])


def harness(E):
    P = E.params
    shape = P["shapes"][E.choose("shape", len(P["shapes"]))]
    pool = plain_pool(E, shape, P.get("L", 1))
    t = E.Traph(folder=None, default_webentity_creation_rule=NEVER, webentity_creation_rules={})
    ref = Ref()
    h = History(E, t, ref, pool, P["alphabet"], P)
    h.prelude(P.get("prelude"))
    for i in range(P["n"]):
        kind, info = h.step(i)
        if kind == "batch":
            for s, ts in info["data"]:
                if not ts:
                    E.reach("empty-targets")
    oracle(E, t, ref)
