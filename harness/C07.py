"""C07 Webentity network equals the page links aggregated through resolution."""
from harness.netstate import build, owners, page_index, POOL4

ID = "C07"
FUNCTIONS = ["Traph.get_webentities_links_iter", "Traph.get_webentities_links_slow_iter", "Traph.get_webentities_inlinks",
             "Traph.get_webentities_outlinks", "LRUTrie.dfs_with_webentity_iter", "LRUTrie.windup_lru_for_webentity",
             "LinkStore.weighted_link_nodes_iter"]
REQUIRED = ["network:weights", "network:slow-equals-fast", "network:transpose", "network:tallies", "reach:auto-link",
            "reach:cross-link", "reach:dropped-link", "reach:weight2", "reach:op:links", "reach:op:we"]
OUTSIDE = ["more than 4 pool LRUs, more than 3 free requests after the template"]


def levels(tier):
    if tier == "quick":
        return [
            {"name": "n2", "n": 2, "alphabet": ["links", "we", "addprefix", "batch"], "links_batch": 1, "batch_targets": 2,
             "defaults": ["never", "domain"], "pool": [POOL4[0], POOL4[1], POOL4[3]]},
            {"name": "tpl-n2", "n": 2, "prelude": [["links", [[1, 3], [1, 3], [3, 1], [2, 2], [1, 2]]], ["page", 1, True], ["we", [[0, 3]]]],
             "alphabet": ["we", "addprefix", "moveprefix", "delwe", "links"], "links_batch": 1, "defaults": ["never"]},
        ]
    return [
        {"name": "nested-n2", "n": 2, "prelude": [["links", [[1, 3], [1, 3], [3, 1], [2, 2], [1, 2]]], ["we", [[0, 3]]], ["we", [[1, 4]]]],
         "alphabet": ["delwe", "rmprefix", "moveprefix", "addprefix", "links"], "links_batch": 1, "defaults": ["never"]},
        {"name": "n2-wide", "n": 2, "alphabet": ["links", "we", "addprefix", "batch", "delwe"], "links_batch": 1, "batch_targets": 1,
         "defaults": ["never", "domain"]},
        {"name": "tpl-n3", "n": 3, "prelude": [["links", [[1, 3], [1, 3], [3, 1], [2, 2], [1, 2]]], ["page", 1, True], ["we", [[0, 3]]]],
         "alphabet": ["we", "links"], "links_batch": 1, "defaults": ["never"]},
        {"name": "n3", "n": 3, "alphabet": ["links", "we", "addprefix"], "links_batch": 1, "defaults": ["never"], "pool": [POOL4[0], POOL4[1], POOL4[3]]},
    ]


def expected_network(E, ref, include_auto):
    pages, own = owners(ref)
    g = {}
    for s, d, w in ref.links:
        a = own[page_index(pages, s.lru)]
        b = own[page_index(pages, d.lru)]
        if w > 1:
            E.reach("weight2")
        if a is None or b is None:
            E.reach("dropped-link")
            continue
        if a == b:
            E.reach("auto-link")
            if not include_auto:
                continue
        else:
            E.reach("cross-link")
        g.setdefault(a, {})
        g[a][b] = g[a].get(b, 0) + w
    return g


def weights_of(graph):
    out = {}
    for a, row in graph.items():
        for b, w in row.items():
            if isinstance(b, str):
                continue
            if w:
                out.setdefault(a, {})[b] = w
    return out


def transpose(g):
    out = {}
    for a, row in g.items():
        for b, w in row.items():
            out.setdefault(b, {})[a] = w
    return out


def battery(E, t, h):
    ref = h.ref
    pages, own = owners(ref)
    for include_auto in (False, True):
        exp = expected_network(E, ref, include_auto)
        ok, fast = E.call("get_webentities_links", t.get_webentities_links, out=True, include_auto=include_auto, _allowed=())
        E.check(weights_of(fast) == exp, "network:weights", "outbound network %s, model %s (include_auto=%s)" % (weights_of(fast), exp, include_auto))
        ok, slow = E.call("get_webentities_links_slow", t.get_webentities_links_slow, out=True, include_auto=include_auto, _allowed=())
        E.check(weights_of(slow) == exp, "network:slow-equals-fast", "memory-light variant %s, model %s" % (weights_of(slow), exp))
        ok, inn = E.call("get_webentities_links", t.get_webentities_links, out=False, include_auto=include_auto, _allowed=())
        E.check(weights_of(inn) == transpose(exp), "network:transpose", "inbound network %s is not the transpose of %s" % (weights_of(inn), exp))
        ok, inn2 = E.call("get_webentities_links_slow", t.get_webentities_links_slow, out=False, include_auto=include_auto, _allowed=())
        E.check(weights_of(inn2) == transpose(exp), "network:slow-equals-fast", "memory-light inbound %s, model %s" % (weights_of(inn2), transpose(exp)))
        ok, a1 = E.call("get_webentities_outlinks", t.get_webentities_outlinks, include_auto=include_auto, _allowed=())
        ok, a2 = E.call("get_webentities_inlinks", t.get_webentities_inlinks, include_auto=include_auto, _allowed=())
        E.check(weights_of(a1) == exp and weights_of(a2) == transpose(exp), "network:transpose", "in/outlinks aliases disagree with the network")
        # crawled / uncrawled page tallies
        for w in set(x for x in own if x is not None):
            nc = len([1 for pl, o in zip(pages, own) if o == w and ref.crawled(pl.lru)])
            nu = len([1 for pl, o in zip(pages, own) if o == w and not ref.crawled(pl.lru)])
            row = fast.get(w, {})
            E.check(row.get("pages_crawled", 0) == nc and row.get("pages_uncrawled", 0) == nu, "network:tallies",
                    "webentity %d: tallies %s/%s, model %d/%d" % (w, row.get("pages_crawled", 0), row.get("pages_uncrawled", 0), nc, nu))
        E.observe("net%d" % include_auto, weights_of(fast))


def harness(E):
    # the battery runs after every free request (query, write, query again), not only at the end
    t, h, pool = build(E, E.params, after_step=lambda t_, h_: battery(E, t_, h_))
    battery(E, t, h)
