"""C14 Queries never modify the index."""
from harness.netstate import build, POOL4, POOL5
from harness.common import PL, same
from harness.C19 import open_index

ID = "C14"
FUNCTIONS = ["Traph.retrieve_prefix", "Traph.retrieve_webentity", "Traph.get_potential_prefix", "Traph.get_webentity_by_prefix",
             "Traph.get_webentity_pages", "Traph.paginate_webentity_pages", "Traph.get_webentity_crawled_pages",
             "Traph.get_webentity_most_linked_pages", "Traph.get_webentity_parent_webentities", "Traph.get_webentity_child_webentities",
             "Traph.get_webentity_pagelinks", "Traph.paginate_webentity_pagelinks", "Traph.get_webentity_outlinks",
             "Traph.get_webentity_inlinks", "Traph.get_page_links", "Traph.get_page_indegree", "Traph.get_webentities_links",
             "Traph.get_webentities_links_slow", "Traph.expand_prefix", "Traph.links_iter", "Traph.pages_iter",
             "Traph.webentity_prefix_iter", "Traph.count_pages", "Traph.count_links", "Traph.links_metrics", "Traph.metrics",
             "LRUTrie.follow_lru", "LRUTrie.lru_node", "FileStorage.read", "MemoryStorage.read"]
REQUIRED = ["readonly", "reach:answered", "reach:refused", "reach:absent-lru", "reach:unknown-weid", "reach:file-backend"]
OUTSIDE = ["states beyond the template + 2 free requests", "4 pool LRUs"]

TPL = [["batch", 0, [1, 3]], ["links", [[1, 3], [3, 1], [2, 2]]], ["we", [[0, 3]]]]


def levels(tier):
    if tier == "quick":
        return [
            {"name": "empty", "n": 0, "alphabet": ["we"], "defaults": ["never", "domain"], "backends": ["memory", "file"], "budget": 30},
            {"name": "tpl-n0", "n": 0, "prelude": TPL, "alphabet": ["we"], "defaults": ["never", "domain"], "backends": ["memory", "file"], "absent2": True},
            {"name": "rule-n0", "n": 0, "prelude": [["batch", 0, [1, 2]], ["we", [[0, 3]]], ["rule", [0, 3, "path1"]]], "alphabet": ["we"],
             "defaults": ["never"], "backends": ["memory"], "pool": [POOL4[0], POOL4[1], POOL4[3]], "absent2": True, "budget": 45},
            {"name": "del-n1", "n": 1, "prelude": [["links", [[1, 2], [2, 1]]], ["we", [[0, 3]]], ["we", [[1, 4]]]], "alphabet": ["delwe", "rmprefix"],
             "defaults": ["never"], "backends": ["memory"], "pool": [POOL4[0], POOL4[1], POOL4[3]], "budget": 60},
            {"name": "auto-del-n1", "n": 1, "prelude": [["links", [[1, 2], [2, 1]]]], "alphabet": ["delwe"],
             "defaults": ["domain"], "backends": ["memory"], "pool": [POOL4[0], POOL4[1], POOL4[3]], "budget": 60},
            {"name": "foreign-id", "n": 0, "prelude": TPL + [["attach", [3, 3], 40]], "alphabet": ["we"], "defaults": ["never"],
             "backends": ["memory", "file"], "budget": 40},
            {"name": "tpl-n1", "n": 1, "prelude": TPL, "alphabet": ["addprefix"], "defaults": ["never"],
             "rule_patterns": ["path1"], "backends": ["memory"], "budget": 100, "pool": [POOL4[0], POOL4[1], POOL4[3]],
             "prelude": [["batch", 0, [1, 2]], ["links", [[1, 2], [2, 1], [1, 1]]], ["we", [[0, 3]]]]},
        ]
    return [
        {"name": "tpl-n1-wide", "n": 1, "prelude": TPL, "alphabet": ["we", "addprefix", "rule", "page", "links", "delwe"], "links_batch": 1,
         "defaults": ["never", "domain"], "rule_patterns": ["path1", "subdomain"], "backends": ["memory", "file"]},
        {"name": "n2", "n": 2, "alphabet": ["page", "links", "we", "rule"], "links_batch": 1, "defaults": ["never"],
         "rule_patterns": ["path1"], "backends": ["memory"], "pool": [POOL4[0], POOL4[1], POOL4[3]]},
    ]


def harness(E):
    P = E.params
    backend = P["backends"][E.choose("backend", len(P["backends"]))]
    if backend == "file":
        E.reach("file-backend")
    P2 = dict(P)
    P2["backend"] = backend
    t, h, pool = build_backend(E, P2)
    ref = h.ref
    TraphException = E.TraphException
    state = {"n": 0}

    def snap():
        return E.raw_store(t, "trie"), E.raw_store(t, "links")

    base = snap()

    def q(name, fn, *a, **kw):
        try:
            r = fn(*a, **kw)
            if hasattr(r, "__next__"):
                r = list(r)
            E.reach("answered")
        except TraphException:
            r = None
            E.reach("refused")
        except Exception:
            r = None          # not the library's own error: outside this property's statement
        now = snap()
        E.check(E.all(E.eq(base[0], now[0]), E.eq(base[1], now[1])), "readonly", "%s changed a store" % name)
        state["n"] += 1
        return r

    z = E.const(b"p:") + E.bytes("z", 1) + E.const(b"|")
    absent = pool[1].extend(z, "absent")
    fresh = PL([E.const(b"s:http|"), E.const(b"h:") + E.bytes("y", 1) + E.const(b"|")], "fresh")
    E.reach("absent-lru")
    lrus = [pl.lru for pl in pool] + [absent.lru, fresh.lru, pool[0].prefix(2).lru]
    if P.get("absent2"):
        lrus.append(pool[0].extend(z, "absent2").lru)      # an absent LRU right below the first pool LRU (a new first path stem)
    for lru in lrus:
        q("retrieve_prefix", t.retrieve_prefix, lru)
        q("retrieve_webentity", t.retrieve_webentity, lru)
        q("get_potential_prefix", t.get_potential_prefix, lru)
        q("get_webentity_by_prefix", t.get_webentity_by_prefix, lru)
        q("expand_prefix", t.expand_prefix, lru)
        for inb in (False, True):
            for inte in (False, True):
                for outb in (False, True):
                    q("get_page_links", t.get_page_links, lru, include_inbound=inb, include_internal=inte, include_outbound=outb)
        for wg in (False, True):
            q("get_page_indegree", t.get_page_indegree, lru, weighted=wg)
            q("get_page_outdegree", t.get_page_outdegree, lru, weighted=wg)
            q("get_page_degree", t.get_page_degree, lru, weighted=wg)
    targets = [(w, list(pf)) for w, pf in h.alive()]
    if targets:
        E.reach("unknown-weid")
        targets.append((999, list(targets[0][1])))
        targets.append((targets[0][0], [absent.lru]))
        targets.append((targets[0][0], list(targets[0][1]) + [fresh.lru]))
    for weid, pf in targets:
        q("get_webentity_pages", t.get_webentity_pages, weid, pf)
        q("get_webentity_crawled_pages", t.get_webentity_crawled_pages, weid, pf)
        for k in (1, 3):
            for depth in (None, 0, 1):
                q("get_webentity_most_linked_pages", t.get_webentity_most_linked_pages, weid, pf, pages_count=k, max_depth=depth)
        q("get_webentity_parent_webentities", t.get_webentity_parent_webentities, weid, pf)
        q("get_webentity_child_webentities", t.get_webentity_child_webentities, weid, pf)
        for inb in (False, True):
            for inte in (False, True):
                for outb in (False, True):
                    q("get_webentity_pagelinks", t.get_webentity_pagelinks, weid, pf, include_inbound=inb, include_internal=inte, include_outbound=outb)
        for fn in ("get_webentity_outlinks", "get_webentity_inlinks", "get_webentity_outdegree", "get_webentity_indegree", "get_webentity_degree"):
            q(fn, getattr(t, fn), weid, pf)
        for crawled_only in (False, True):
            tok = None
            for _ in range(4):
                ans = q("paginate_webentity_pages", t.paginate_webentity_pages, weid, pf, page_count=1, pagination_token=tok, crawled_only=crawled_only)
                if not ans or ans.get("done"):
                    break
                tok = ans["token"]
        for inte, outb in ((True, False), (False, True), (True, True), (False, False)):
            tok = None
            for _ in range(4):
                ans = q("paginate_webentity_pagelinks", t.paginate_webentity_pagelinks, weid, pf, include_internal=inte,
                        include_outbound=outb, source_page_count=1, pagination_token=tok)
                if not ans or ans.get("done"):
                    break
                tok = ans["token"]
    for out in (False, True):
        for auto in (False, True):
            q("get_webentities_links", t.get_webentities_links, out=out, include_auto=auto)
            q("get_webentities_links_slow", t.get_webentities_links_slow, out=out, include_auto=auto)
        q("links_iter", lambda o=out: list(t.links_iter(out=o)))
    for auto in (False, True):
        q("get_webentities_inlinks", t.get_webentities_inlinks, include_auto=auto)
        q("get_webentities_outlinks", t.get_webentities_outlinks, include_auto=auto)
    q("pages_iter", lambda: [lru for n_, lru in t.pages_iter()])
    q("webentity_prefix_iter", lambda: [lru for n_, lru in t.webentity_prefix_iter()])
    q("count_pages", t.count_pages)
    q("count_crawled_pages", t.count_crawled_pages)
    q("count_links", t.count_links)
    q("links_metrics", t.links_metrics)
    q("metrics", t.metrics)
    E.observe("queries", state["n"])
    if backend == "file":
        t.close()


def build_backend(E, P):
    """as netstate.build but on the chosen back-end"""
    from harness.common import typed_pool, Ref, RULES, NEVER
    from harness.driver import History
    pool = typed_pool(E, P.get("pool", POOL4), L=1)
    defaults = P.get("defaults", ["never"])
    default = defaults[E.choose("default", len(defaults))]
    ref = Ref()
    ref.default_rule = None if default == "never" else default
    t = open_index(E, P["backend"], default_webentity_creation_rule=NEVER if default == "never" else RULES[default],
                   webentity_creation_rules={})
    h = History(E, t, ref, pool, P["alphabet"], P)
    h.prelude(P.get("prelude"))
    for i in range(P["n"]):
        h.step(i)
    return t, h, pool
