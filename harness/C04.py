"""C04 Webentity resolution is longest-prefix match over the net prefix edits."""
from harness.common import plain_pool, typed_pool, Ref, NEVER, RULES, PL, same
from harness.driver import History

ID = "C04"
FUNCTIONS = ["Traph.create_webentity", "Traph.delete_webentity", "Traph.add_prefix_to_webentity",
             "Traph.remove_prefix_from_webentity", "Traph.move_prefix_to_webentity", "Traph.retrieve_webentity",
             "Traph.retrieve_prefix", "Traph.get_webentity_by_prefix", "Traph.webentity_prefix_iter", "LRUTrie.follow_lru"]
REQUIRED = ["resolve:webentity", "resolve:prefix", "resolve:error-iff-none", "by_prefix", "prefix_iter:count",
            "add_prefix:refusal", "create_webentity:refusal", "reach:op:we", "reach:op:delwe", "reach:op:addprefix",
            "reach:op:rmprefix", "reach:op:moveprefix", "reach:op:delbad", "reach:op:deldup", "reach:query:extension", "reach:query:fresh", "reach:nested"]
OUTSIDE = ["more than 3 pool LRUs of at most 3 stems, more than 4 edits", "automatic creations are exercised in C06 (typed LRUs, rule family)"]


TPOOL = [{"hosts": 2}, {"extend": 0, "paths": 2}, {"hosts": 2, "paths": 1}]


def levels(tier):
    edits = ["we", "delwe", "addprefix", "rmprefix", "moveprefix", "page"]
    if tier == "quick":
        return [
            {"name": "rmforeign", "shapes": [[1, 2, 2]], "n": 1, "prelude": [["we", [[1, 1], [2, 2]]]], "alphabet": ["rmforeign"]},
            {"name": "variants", "shapes": [[1, 2, 2]], "n": 1, "prelude": [["we", [[1, 1], [2, 2]]], ["we", [[0, 1]]]],
             "alphabet": ["delwe", "rmprefix", "moveprefix"], "api_variants": True},
            {"name": "auto-links", "typed": [{"hosts": 2, "paths": 1}, {"hosts": 2, "paths": 1, "scheme": None}], "default": "domain",
             "anchored": (0, 3, "path1"), "n": 1, "alphabet": ["links", "page"], "links_batch": 1},
            {"name": "n2", "shapes": [[1, 2, 3]], "n": 2, "alphabet": edits},
            {"name": "auto-n2", "typed": TPOOL, "default": "domain", "anchored": (1, 3, "path1"), "n": 2, "alphabet": ["we", "page"],
             "every_step": True},
            {"name": "refused", "shapes": [[1, 2, 2]], "n": 2, "prelude": [["we", [[1, 1], [2, 2]]]],
             "alphabet": ["we", "delbad", "deldup"]},
            {"name": "mixed-create", "shapes": [[1, 2, 2]], "n": 1, "prelude": [["we", [[1, 1], [2, 2]]]], "alphabet": ["we"], "we_two_prefixes": True},
            {"name": "n3", "shapes": [[1, 2, 2]], "n": 3, "alphabet": ["we", "delwe", "addprefix"]},
        ]
    return [
        {"name": "n2-wide", "shapes": [[1, 2, 3]], "n": 2, "alphabet": edits + ["rmforeign", "delbad", "deldup"]},
        {"name": "refused-wide", "shapes": [[1, 2, 3]], "n": 2, "prelude": [["we", [[1, 1], [2, 2]]]],
         "alphabet": ["we", "addprefix", "delbad", "deldup", "rmforeign", "delwe"]},
        {"name": "refused-n3", "shapes": [[1, 2, 2]], "n": 3, "prelude": [["we", [[1, 1], [2, 2]]]], "alphabet": ["delbad", "deldup", "addprefix"]},
        {"name": "n3-wide", "shapes": [[1, 2, 3]], "n": 3, "alphabet": ["we", "delwe", "addprefix", "rmprefix", "moveprefix"]},
        {"name": "variants-n3", "shapes": [[1, 2, 2]], "n": 3, "alphabet": ["we", "delwe", "rmprefix", "moveprefix"], "api_variants": True},
        {"name": "n4", "shapes": [[1, 2, 2]], "n": 4, "alphabet": ["we", "addprefix"]},
        {"name": "auto-n3", "typed": TPOOL, "default": "domain", "anchored": (1, 3, "path1"), "n": 3, "alphabet": ["we", "page"], "every_step": True},
    ]


def check_resolution(E, t, ref, q, tag):
    w, p = ref.resolve(q)
    ok, got = E.call("retrieve_webentity", t.retrieve_webentity, q.lru)
    E.check(ok == (w is not None), "resolve:error-iff-none",
            "%s: retrieve_webentity %s, model webentity %s" % (tag, "answered" if ok else "raised", w))
    if ok:
        E.check(got == w, "resolve:webentity", "%s: resolved to %r, longest attached stem-prefix belongs to %r" % (tag, got, w))
    ok, gp = E.call("retrieve_prefix", t.retrieve_prefix, q.lru)
    E.check(ok == (w is not None), "resolve:error-iff-none", "%s: retrieve_prefix %s, model %s" % (tag, "answered" if ok else "raised", w))
    if ok:
        E.check(same(E.wrap(gp), p.lru), "resolve:prefix", "%s: retrieve_prefix is not the longest attached stem-prefix" % tag)


def battery(E, t, ref, pool, extra):
    nested = False
    for pl in pool:
        for q in pl.prefixes():
            check_resolution(E, t, ref, q, q.name)
            w = ref.prefixes.get(q.lru)
            ok, got = E.call("get_webentity_by_prefix", t.get_webentity_by_prefix, q.lru)
            E.check(ok == (w is not None) and (not ok or got == w), "by_prefix",
                    "%s: get_webentity_by_prefix -> %r (ok=%s), model %r" % (q.name, got if ok else None, ok, w))
            if w is not None and len(q.stems) > 1 and ref.resolve(q.prefix(len(q.stems) - 1))[0] is not None:
                nested = True
    if nested:
        E.reach("nested")
    check_resolution(E, t, ref, extra, extra.name)
    ok, items = E.call("webentity_prefix_iter", lambda: [(lru, node.webentity()) for node, lru in t.webentity_prefix_iter()], _allowed=())
    E.check(len(items) == len(ref.prefixes), "prefix_iter:count", "%d attached prefixes enumerated, model has %d" % (len(items), len(ref.prefixes)))
    seen = []
    for lru, w in items:
        lru = E.wrap(lru)
        E.check(ref.prefixes.get(lru) == w, "prefix_iter:entry", "an enumerated prefix is not attached to that webentity in the model")
        for s in seen:
            E.check(not same(s, lru), "prefix_iter:duplicate")
        seen.append(lru)
    E.observe("prefixes", [[lru, w] for lru, w in items])


def harness(E):
    P = E.params
    ref = Ref()
    if P.get("typed"):
        # typed LRUs with Hyphe's rules: automatic creations are part of the net effect
        pool = typed_pool(E, P["typed"], L=1)
        ref.default_rule = P["default"]
        rules = {}
        if P.get("anchored"):
            li, k, rn = P["anchored"]
            a = pool[li].prefix(k)
            rules[a.lru] = RULES[rn]
            ref.name(a)
            ref.rules.set(a.lru, rn)
        t = E.Traph(folder=None, default_webentity_creation_rule=RULES[P["default"]], webentity_creation_rules=rules)
        z = E.const(b"p:") + E.bytes("z", 1) + E.const(b"|")
    else:
        shape = P["shapes"][E.choose("shape", len(P["shapes"]))]
        pool = plain_pool(E, shape, P.get("L", 1))
        t = E.Traph(folder=None, default_webentity_creation_rule=NEVER, webentity_creation_rules={})
        z = E.bytes("z", 1) + E.const(b"|")
    h = History(E, t, ref, pool, P["alphabet"], P)
    h.prelude(P.get("prelude"))
    # one query outside the pool: an extension of a pool LRU by a fresh stem, or a fresh LRU
    k = E.choose("query", len(pool) + 1)
    if k < len(pool):
        E.reach("query:extension")
        extra = pool[k].extend(z, "P%d+z" % k)
    else:
        E.reach("query:fresh")
        extra = PL([z], "z") if not P.get("typed") else PL([E.const(b"s:http|"), E.const(b"h:") + E.bytes("y", 1) + E.const(b"|")], "fresh")
    for i in range(P["n"]):
        kind, info = h.step(i)
        if kind == "we":
            E.check(info["ok"] == info["expected_ok"], "create_webentity:refusal",
                    "create_webentity accepted=%s, a prefix was already attached=%s" % (info["ok"], not info["expected_ok"]))
        if P.get("every_step") and i < P["n"] - 1:
            battery(E, t, ref, pool, extra)      # query, write, query again: answers must follow the edits
    battery(E, t, ref, pool, extra)
