"""History driver: applies one symbolically chosen write request to the real
index and to the reference model."""
from harness.common import PL, Ref, same, NEVER, RULES


def pick(E, name, pool, st):
    """operand index with a symmetry reduction that is sound only among interchangeable
    pool members (same `cls`: same shape, independent fresh bytes): a not-yet-used
    member may be chosen only if it is the first unused one of its class"""
    used = st.setdefault("used_set", set())
    allowed = []
    seen_unused = set()
    for i, pl in enumerate(pool):
        if i in used:
            allowed.append(i)
            continue
        c = getattr(pl, "cls", None)
        if c is None:
            allowed.append(i)
        elif c not in seen_unused:
            seen_unused.add(c)
            allowed.append(i)
    k = allowed[E.choose(name, len(allowed))]
    used.add(k)
    return k


class History(object):
    """alphabet entries: page, pages, links, batch, we, rule, delwe, addprefix, rmprefix, moveprefix"""

    def __init__(self, E, t, ref, pool, alphabet, opts=None):
        self.E = E
        self.t = t
        self.ref = ref
        self.pool = pool
        self.alphabet = list(alphabet)
        self.opts = opts or {}
        self.st = {}
        self.webentities = []     # [weid, [prefix PL...]] as created through the API (model view)
        self.log = []

    def set_traph(self, t):
        self.t = t

    def operand(self, name):
        return self.pool[pick(self.E, name, self.pool, self.st)]

    def arg(self, pl):
        """the value handed to the API for an LRU: its bytes, or (as_str levels, concrete pools) the
        str that UTF-8-encodes to those bytes -- the API accepts both"""
        if self.opts.get("as_str"):
            items = getattr(pl.lru, "items", None)
            raw = bytes(items) if items is not None else bytes(pl.lru)
            return raw.decode("utf-8")
        return pl.lru

    def prefix_operand(self, name):
        pl = self.operand(name)
        if len(pl.stems) == 1:
            return pl
        k = self.E.choose(name + ".k", len(pl.stems)) + 1
        return pl.prefix(k)

    def step(self, i):
        """-> (kind, info) where info carries what the property oracles need"""
        E = self.E
        kind = self.alphabet[E.choose("op%d" % i, len(self.alphabet))]
        E.reach("op:" + kind)
        f = getattr(self, "op_" + kind)
        self.ref.created = []
        info = f("o%d" % i)
        info["created"] = list(self.ref.created)
        info["kind"] = kind
        self.log.append(info)
        return kind, info

    def prelude(self, spec):
        """fixed (non-symbolic) requests that build a state template before the free history"""
        E = self.E

        def mark(x):
            # pool members named by the template are no longer interchangeable with unused ones
            if isinstance(x, int) and not isinstance(x, bool):
                if 0 <= x < len(self.pool):
                    self.st.setdefault("used_set", set()).add(x)
            elif isinstance(x, (list, tuple)):
                for y in x:
                    mark(y)
        for item in spec or []:
            kind = item[0]
            if kind in ("page", "batch"):
                mark(item[1])
                if kind == "batch":
                    mark(item[2])
            elif kind == "links":
                mark(item[1])
            elif kind in ("we",):
                mark([i for i, k in item[1]])
            elif kind == "rule":
                mark(item[1][0])
            elif kind == "attach":
                mark(item[1][0])
            self.ref.created = []
            if kind == "page":
                a = self.pool[item[1]]
                crawled = bool(item[2]) if len(item) > 2 else False
                E.call("add_page", self.t.add_page, a.lru, crawled=crawled, _allowed=())
                self.ref.insert(E, a, crawled)
            elif kind == "batch":
                s_ = self.pool[item[1]]
                ts = [self.pool[j] for j in item[2]]
                E.call("index_batch_crawl", self.t.index_batch_crawl, {s_.lru: [x.lru for x in ts]}, _allowed=())
                self.ref.insert(E, s_, True)
                for x in ts:
                    self.ref.insert(E, x, False)
                    self.ref.add_link(s_, x)
            elif kind == "links":
                pairs = [(self.pool[a], self.pool[b]) for a, b in item[1]]
                E.call("add_links", self.t.add_links, [(a.lru, b.lru) for a, b in pairs], _allowed=())
                for a, b in pairs:
                    self.ref.insert(E, a, False)
                    self.ref.insert(E, b, False)
                    self.ref.add_link(a, b)
            elif kind == "we":
                ps = [self.pool[i].prefix(k) for i, k in item[1]]
                for p in ps:
                    if self.ref.prefixes.has(p.lru):
                        E.assume(False)      # template not applicable: the prefix is already attached
                E.call("create_webentity", self.t.create_webentity, [p.lru for p in ps], _allowed=())
                for p in ps:
                    self.ref.name(p)
                weid = self.ref.new_id()
                for p in ps:
                    self.ref.prefixes.set(p.lru, weid)
            elif kind == "rule":
                li, k, rn = item[1]
                a = self.pool[li].prefix(k)
                ok, rep = E.call("add_webentity_creation_rule", self.t.add_webentity_creation_rule, a.lru, RULES[rn], _allowed=())
                self.ref.name(a)
                self.ref.rules.set(a.lru, rn)
                self.install_model(a, rep)
            elif kind == "clear":
                self.op_clear("prelude")
            elif kind == "reopen":
                self.op_reopen("prelude")
            elif kind == "attach":
                # add_prefix_to_webentity with an id of the caller's choosing (not an id the index issued)
                (i, k), weid = item[1], item[2]
                p = self.pool[i].prefix(k)
                if self.ref.prefixes.has(p.lru):
                    E.assume(False)
                E.call("add_prefix_to_webentity", self.t.add_prefix_to_webentity, p.lru, weid, _allowed=())
                self.ref.name(p)
                self.ref.prefixes.set(p.lru, weid)
            else:
                raise ValueError(kind)

    # -- page writes ---------------------------------------------------------------
    def op_page(self, n):
        E = self.E
        a = self.operand(n + ".a")
        crawled = E.flag(n + ".crawled")
        ok, rep = E.call("add_page", self.t.add_page, self.arg(a), crawled=crawled)
        E.check(ok, "add_page:refused")
        new = 1 if self.ref.insert(E, a, crawled) else 0
        return {"report": rep, "new_pages": new, "pages": [a]}

    def op_pages(self, n):
        E = self.E
        k = self.opts.get("pages_batch", 2)
        ops = [self.operand("%s.a%d" % (n, j)) for j in range(k)]
        crawled = E.flag(n + ".crawled")
        ok, rep = E.call("add_pages", self.t.add_pages, [self.arg(a) for a in ops], crawled=crawled)
        E.check(ok, "add_pages:refused")
        new = 0
        for a in ops:
            if self.ref.insert(E, a, crawled):
                new += 1
        return {"report": rep, "new_pages": new, "pages": ops}

    def op_links(self, n):
        E = self.E
        maxp = self.opts.get("links_batch", 2)
        npairs = 1 + E.choose(n + ".n", maxp)
        pairs = []
        for j in range(npairs):
            s = self.operand("%s.s%d" % (n, j))
            d = self.operand("%s.t%d" % (n, j))
            pairs.append((s, d))
        ok, rep = E.call("add_links", self.t.add_links, [(self.arg(s), self.arg(d)) for s, d in pairs])
        E.check(ok, "add_links:refused")
        new = 0
        for s, d in pairs:
            if self.ref.insert(E, s, False):
                new += 1
            if self.ref.insert(E, d, False):
                new += 1
            self.ref.add_link(s, d)
        return {"report": rep, "new_pages": new, "pairs": pairs}

    def op_batch(self, n):
        """index_batch_crawl with 1..2 sources and 0..max targets each.  A dict cannot hold
        the same source twice, so the two sources are assumed different."""
        E = self.E
        maxs = self.opts.get("batch_sources", 1)
        maxt = self.opts.get("batch_targets", 2)
        ns = 1 + E.choose(n + ".ns", maxs)
        srcs = []
        data = []
        for j in range(ns):
            s = self.operand("%s.s%d" % (n, j))
            for (s0, _) in data:
                E.assume(E.neg(E.eq(s0.lru, s.lru)) if len(s0.lru) == len(s.lru) else True)
            nt = E.choose("%s.nt%d" % (n, j), maxt + 1)
            ts = [self.operand("%s.t%d.%d" % (n, j, q)) for q in range(nt)]
            data.append((s, ts))
        arg = {}
        for s, ts in data:
            arg[self.arg(s)] = [self.arg(x) for x in ts]
        yfs = self.opts.get("yield_frequencies", [50])
        yf = yfs[E.choose(n + ".yf", len(yfs))]
        ok, rep = E.call("index_batch_crawl", self.t.index_batch_crawl, arg, yf)
        E.check(ok, "index_batch_crawl:refused")
        new = 0
        for s, ts in data:
            if self.ref.insert(E, s, True):
                new += 1
            for x in ts:
                if self.ref.insert(E, x, False):
                    new += 1
                self.ref.add_link(s, x)
        return {"report": rep, "new_pages": new, "data": data}

    # -- webentity writes ------------------------------------------------------------
    def op_we(self, n):
        """create_webentity on one prefix (or two): refused iff one is already attached"""
        E = self.E
        k = 1 + (E.choose(n + ".np", 2) if self.opts.get("we_two_prefixes") else 0)
        ps = [self.prefix_operand("%s.p%d" % (n, j)) for j in range(k)]
        if k == 2:
            E.assume(E.neg(E.eq(ps[0].lru, ps[1].lru)) if len(ps[0].lru) == len(ps[1].lru) else True)
        ok, rep = E.call("create_webentity", self.t.create_webentity, [self.arg(p) for p in ps])
        taken = False
        for p in ps:
            self.ref.name(p)
            if self.ref.prefixes.has(p.lru):
                taken = True
        weid = None
        if not taken:
            weid = self.ref.new_id()
            for p in ps:
                self.ref.prefixes.set(p.lru, weid)
            self.webentities.append([weid, list(ps)])
        return {"report": rep if ok else None, "ok": ok, "expected_ok": not taken, "weid": weid, "prefixes": ps, "new_pages": 0}

    def op_rule(self, n):
        """add_webentity_creation_rule on a (possibly populated) index: modelled as re-inserting
        every page beneath the anchor; webentity ids of the creations are taken from the
        report (the order of re-insertion is the implementation's business)"""
        E = self.E
        p = self.prefix_operand(n + ".p")
        names = self.opts.get("rule_patterns", ["never"])
        rn = names[E.choose(n + ".pat", len(names))]
        pat = NEVER if rn == "never" else RULES[rn]
        ok, rep = E.call("add_webentity_creation_rule", self.t.add_webentity_creation_rule, self.arg(p), pat)
        E.check(ok, "add_rule:refused")
        self.ref.name(p)
        self.ref.rules.set(p.lru, rn)
        self.install_model(p, rep)
        return {"report": rep, "new_pages": 0, "anchor": p, "rule": rn}

    def op_rmrule(self, n):
        """remove_webentity_creation_rule on an installed rule: later insertions no longer see it"""
        E = self.E
        items = self.ref.rules.items()
        if not items:
            raise_infeasible(E)
        lru, rn = items[E.choose(n + ".r", len(items))]
        ok, res = E.call("remove_webentity_creation_rule", self.t.remove_webentity_creation_rule, lru)
        E.check(ok, "remove_rule:refused", "removing an installed rule was refused")
        self.ref.rules.pop(lru)
        return {"new_pages": 0}

    def install_model(self, anchor, rep):
        from harness.common import is_stem_prefix
        E = self.E
        ref = self.ref
        before = ref.last_id
        for pl in ref.page_list():
            if is_stem_prefix(anchor, pl):
                ref.insert(E, pl, False)
        if not ref.created or rep is None:
            return
        # rename the ids of these creations after the report (creation order is not modelled)
        reported = [(weid, [E.wrap(x) for x in prefixes]) for weid, prefixes in rep.created_webentities.items()]
        mapping = {}
        for weid_m, valid in ref.created:
            for weid_r, prefixes in reported:
                hit = False
                for x in prefixes:
                    if same(x, valid[0].lru):
                        hit = True
                        break
                if hit:
                    mapping[weid_m] = weid_r
                    break
        if len(mapping) == len(ref.created) and sorted(mapping.values()) == sorted(mapping.keys()):
            for i in range(len(ref.prefixes.v)):
                if ref.prefixes.v[i] in mapping:
                    ref.prefixes.v[i] = mapping[ref.prefixes.v[i]]
            ref.created = [(mapping[w], v) for w, v in ref.created]

    # -- explicit webentity edits -----------------------------------------------------
    def alive(self):
        """-> list of [weid, [prefix lru...]] currently in the model, in id order"""
        out = {}
        for lru, w in self.ref.prefixes.items():
            out.setdefault(w, []).append(lru)
        return [[w, out[w]] for w in sorted(out)]

    def pick_we(self, name):
        al = self.alive()
        if not al:
            return None
        return al[self.E.choose(name, len(al))]

    def op_delwe(self, n):
        E = self.E
        we = self.pick_we(n + ".we")
        if we is None:
            raise_infeasible(E)
        weid, prefixes = we
        if self.opts.get("api_variants") and E.flag(n + ".nocheck"):
            E.reach("variant:delete-nocheck")
            # the id is documented as ignored when the consistency check is off
            some_id = [weid, None, weid + 7][E.choose(n + ".anyid", 3)]
            ok, res = E.call("delete_webentity", self.t.delete_webentity, some_id, list(prefixes), check_for_corruption=False)
        else:
            ok, res = E.call("delete_webentity", self.t.delete_webentity, weid, list(prefixes))
        E.check(ok, "delete_webentity:refused", "deleting a webentity with its own prefix list was refused")
        for p in prefixes:
            self.ref.prefixes.pop(p)
        return {"new_pages": 0, "weid": weid}

    def op_delbad(self, n):
        """delete_webentity with the webentity's prefixes followed by a prefix it does not own: refused, nothing changes"""
        E = self.E
        we = self.pick_we(n + ".we")
        if we is None:
            raise_infeasible(E)
        weid, prefixes = we
        p = self.prefix_operand(n + ".p")
        if self.ref.prefixes.get(p.lru) == weid:
            raise_infeasible(E)
        ok, res = E.call("delete_webentity", self.t.delete_webentity, weid, list(prefixes) + [p.lru])
        E.check(not ok, "delete_webentity:bad-accepted", "a deletion naming a prefix the webentity does not own was accepted")
        return {"new_pages": 0}

    def op_deldup(self, n):
        """delete_webentity naming one of its prefixes twice: a valid deletion"""
        E = self.E
        we = self.pick_we(n + ".we")
        if we is None:
            raise_infeasible(E)
        weid, prefixes = we
        ok, res = E.call("delete_webentity", self.t.delete_webentity, weid, [prefixes[0]] + list(prefixes))
        E.check(ok, "delete_webentity:refused", "deleting a webentity with its own prefixes (one named twice) was refused")
        for p in prefixes:
            self.ref.prefixes.pop(p)
        return {"new_pages": 0, "weid": weid}

    def op_addprefix(self, n):
        E = self.E
        we = self.pick_we(n + ".we")
        if we is None:
            raise_infeasible(E)
        p = self.prefix_operand(n + ".p")
        ok, res = E.call("add_prefix_to_webentity", self.t.add_prefix_to_webentity, p.lru, we[0])
        self.ref.name(p)
        taken = self.ref.prefixes.has(p.lru)
        E.check(ok == (not taken), "add_prefix:refusal", "attaching a prefix: accepted=%s, already attached=%s" % (ok, taken))
        if not taken:
            self.ref.prefixes.set(p.lru, we[0])
        return {"new_pages": 0, "ok": ok, "prefix": p, "weid": we[0]}

    def op_rmprefix(self, n):
        """remove a prefix from the webentity that owns it (documented call shape)"""
        E = self.E
        we = self.pick_we(n + ".we")
        if we is None:
            raise_infeasible(E)
        k = E.choose(n + ".k", len(we[1]))
        lru = we[1][k]
        if self.opts.get("api_variants") and E.flag(n + ".noweid"):
            E.reach("variant:remove-noweid")
            ok, res = E.call("remove_prefix_from_webentity", self.t.remove_prefix_from_webentity, lru)
        else:
            ok, res = E.call("remove_prefix_from_webentity", self.t.remove_prefix_from_webentity, lru, we[0])
        E.check(ok, "remove_prefix:refused", "removing a prefix from its own webentity was refused")
        self.ref.prefixes.pop(lru)
        return {"new_pages": 0, "weid": we[0]}

    def op_rmforeign(self, n):
        """remove_prefix_from_webentity(prefix, weid) with a prefix the webentity may not own"""
        E = self.E
        we = self.pick_we(n + ".we")
        if we is None:
            raise_infeasible(E)
        p = self.prefix_operand(n + ".p")
        ok, res = E.call("remove_prefix_from_webentity", self.t.remove_prefix_from_webentity, p.lru, we[0])
        self.ref.name(p)
        owner = self.ref.prefixes.get(p.lru)
        E.check(ok == (owner == we[0]), "remove_prefix:refusal", "removal accepted=%s, owner=%s, asked=%s" % (ok, owner, we[0]))
        if owner == we[0]:
            self.ref.prefixes.pop(p.lru)
        return {"new_pages": 0}

    def op_moveprefix(self, n):
        E = self.E
        al = self.alive()
        if len(al) < 2:
            raise_infeasible(E)
        src = al[E.choose(n + ".src", len(al))]
        others = [w for w in al if w[0] != src[0]]
        dst = others[E.choose(n + ".dst", len(others))]
        k = E.choose(n + ".k", len(src[1]))
        lru = src[1][k]
        variant = E.choose(n + ".variant", 3) if self.opts.get("api_variants") else 0
        if variant == 1:
            E.reach("variant:move-nosource")
            ok, res = E.call("move_prefix_to_webentity", self.t.move_prefix_to_webentity, lru, dst[0])
        elif variant == 2:
            E.reach("variant:move-alias")
            ok, res = E.call("move_prefix_to_webentity_from_webentity", self.t.move_prefix_to_webentity_from_webentity, lru, dst[0], src[0])
        else:
            ok, res = E.call("move_prefix_to_webentity", self.t.move_prefix_to_webentity, lru, dst[0], src[0])
        E.check(ok, "move_prefix:refused", "moving a prefix between two webentities was refused")
        self.ref.prefixes.set(lru, dst[0])
        return {"new_pages": 0}


    # -- close/reopen and clear (file back-end) -----------------------------------------
    def current_rules(self):
        out = {}
        for anchor, rn in self.ref.rules.items():
            out[anchor] = NEVER if rn == "never" else RULES[rn]
        return out

    def default_pattern(self):
        d = self.ref.default_rule
        return NEVER if d in (None, "never") else RULES[d]

    def op_reopen(self, n):
        """close and open again on the same folder, rules re-supplied as the API requires"""
        E = self.E
        folder = self.opts["folder"]
        E.call("close", self.t.close, _allowed=())
        ok, t = E.call("reopen", lambda: E.Traph(folder=folder, default_webentity_creation_rule=self.default_pattern(),
                                                  webentity_creation_rules=self.current_rules()))
        E.check(ok, "reopen:refused", "reopening a cleanly closed index was refused")
        self.t = t
        return {"new_pages": 0}

    def op_overwrite(self, n):
        """close, then open the same folder again with overwrite=True (a fresh index on the old files)"""
        E = self.E
        folder = self.opts["folder"]
        E.call("close", self.t.close, _allowed=())
        rules = self.current_rules() if self.opts.get("overwrite_keeps_rules") else {}
        anchors = [(lru, rn, self.ref.known.get(lru)) for lru, rn in self.ref.rules.items()] if rules else []
        ok, t = E.call("overwrite", lambda: E.Traph(folder=folder, overwrite=True, default_webentity_creation_rule=self.default_pattern(),
                                                     webentity_creation_rules=rules), _allowed=())
        self.t = t
        d = self.ref.default_rule
        fresh = Ref()
        fresh.default_rule = d
        self.ref.__dict__.update(fresh.__dict__)
        for lru, rn, pl in anchors:
            self.ref.name(pl)
            self.ref.rules.set(lru, rn)
        return {"new_pages": 0}

    def op_clear(self, n):
        E = self.E
        if self.opts.get("clear_noargs") and E.flag(n + ".noargs"):
            E.reach("variant:clear-noargs")
            ok, _ = E.call("clear", self.t.clear)
        else:
            ok, _ = E.call("clear", self.t.clear, self.default_pattern(), {})
        E.check(ok, "clear:refused")
        d = self.ref.default_rule
        fresh = Ref()
        fresh.default_rule = d
        self.ref.__dict__.update(fresh.__dict__)
        return {"new_pages": 0}


def raise_infeasible(E):
    """the chosen operation has no operand in this state: not a history"""
    E.assume(False)
