"""Shared harness ingredients: LRU pools and the reference model.  Everything here
is engine-agnostic: it runs on SymBytes under the symbolic engine (where `==`
on byte strings is a solver-decided fork) and on real bytes in replays."""

NEVER = b"$^"          # default rule that proposes nothing for a non-empty LRU

RULES = {
    "domain": b"(s:[a-zA-Z]+\\|(t:[0-9]+\\|)?(h:[^\\|]+\\|(h:[^\\|]+\\|)|h:(localhost|(\\d{1,3}\\.){3}\\d{1,3}|\\[[\\da-f]*:[\\da-f:]*\\])\\|))",
    "subdomain": b"(s:[a-zA-Z]+\\|(t:[0-9]+\\|)?(h:[^\\|]+\\|(h:[^\\|]+\\|)+|h:(localhost|(\\d{1,3}\\.){3}\\d{1,3}|\\[[\\da-f]*:[\\da-f:]*\\])\\|))",
    "path1": b"(s:[a-zA-Z]+\\|(t:[0-9]+\\|)?(h:[^\\|]+\\|(h:[^\\|]+\\|)+|h:(localhost|(\\d{1,3}\\.){3}\\d{1,3}|\\[[\\da-f]*:[\\da-f:]*\\])\\|)(p:[^\\|]+\\|){1})",
    "path2": b"(s:[a-zA-Z]+\\|(t:[0-9]+\\|)?(h:[^\\|]+\\|(h:[^\\|]+\\|)+|h:(localhost|(\\d{1,3}\\.){3}\\d{1,3}|\\[[\\da-f]*:[\\da-f:]*\\])\\|)(p:[^\\|]+\\|){2})",
}

SEP = 0x7C


class PL(object):
    """A pool LRU: a list of stems (each a byte string ending in '|')."""

    def __init__(self, stems, name=None, kinds=None):
        self.stems = list(stems)
        self.name = name
        self.kinds = list(kinds) if kinds is not None else None
        self.cls = None      # symmetry class (None: not interchangeable with any other pool member)
        lru = stems[0]
        for s in stems[1:]:
            lru = lru + s
        self.lru = lru

    def __len__(self):
        return len(self.stems)

    def prefix(self, k):
        """PL made of the first k stems (1 <= k <= len)"""
        return PL(self.stems[:k], "%s[:%d]" % (self.name, k), self.kinds[:k] if self.kinds else None)

    def prefixes(self):
        return [self.prefix(k) for k in range(1, len(self.stems) + 1)]

    def extend(self, stem, name=None):
        return PL(self.stems + [stem], name or "%s+" % self.name, (self.kinds + ["?"]) if self.kinds else None)


def same(a, b):
    """equality of two byte strings; cheap length test first (lengths are concrete)"""
    if len(a) != len(b):
        return False
    return a == b


def same_pl(a, b):
    if len(a.stems) != len(b.stems):
        return False
    return same(a.lru, b.lru)


def is_stem_prefix(a, b):
    """PL a is a (non-strict) stem-prefix of PL b"""
    if len(a.stems) > len(b.stems):
        return False
    return same_pl(a, b.prefix(len(a.stems)))


SPARSE_MARKS = (0, 1, 72, 73, 74, 75, 146, 147, 148, 149, 220, 221, 222, 223, 294, 295, 296, 297)


def filler(i):
    """concrete, position-dependent filler byte (never the separator)"""
    v = (i * 7 + 3) % 251
    return v if v != SEP else 0x7D


def payload(E, name, ln, sparse=False):
    """ln payload bytes.  sparse: only the bytes next to the block-payload boundaries,
    the first two and the last two are symbolic; the rest is a concrete
    position-dependent filler (a stated cut: comparisons then involve a dozen
    symbolic bytes instead of hundreds)"""
    if not sparse or ln <= 8:
        return E.bytes(name, ln)
    marks = set(m for m in SPARSE_MARKS if m < ln) | set([ln - 2, ln - 1])
    out = E.const(b"")
    i = 0
    k = 0
    while i < ln:
        j = i
        if i in marks:
            while j < ln and j in marks:
                j += 1
            out = out + E.bytes("%s~%d" % (name, k), j - i)
            k += 1
        else:
            while j < ln and j not in marks:
                j += 1
            out = out + E.const(bytes(filler(x) for x in range(i, j)))
        i = j
    return out


def plain_pool(E, shape, L=1, tag="", sparse=False):
    """Pool of untyped LRUs.  shape = stems per LRU; each stem is L symbolic
    non-separator bytes + '|'.  Whole LRUs are assumed pairwise distinct."""
    bar = E.const(b"|")
    pool = []
    for i, ns in enumerate(shape):
        stems = []
        for j in range(ns):
            ln = L[i][j] if isinstance(L, (list, tuple)) else L
            stems.append(payload(E, "%sp%d.%d" % (tag, i, j), ln, sparse) + bar)
        pl = PL(stems, "%sP%d" % (tag, i))
        pl.cls = tuple(len(x) for x in stems)
        pool.append(pl)
    distinct(E, pool)
    return pool


def concrete_pool(E, lrus, tag="c"):
    """pool of fully concrete LRUs given as lists of str stems (UTF-8 encoded)"""
    E.concrete_mode()
    pool = []
    for i, stems in enumerate(lrus):
        kinds = [x[0] if len(x) > 1 and x[1] == ":" and x[0] in "sthp" else "?" for x in stems]
        pool.append(PL([E.const(x.encode("utf-8")) for x in stems], "%s%d" % (tag, i), kinds))
    return pool


def distinct(E, pool):
    for i in range(len(pool)):
        for j in range(i):
            if len(pool[i].lru) == len(pool[j].lru) and len(pool[i].stems) == len(pool[j].stems):
                E.assume(E.neg(E.eq(pool[i].lru, pool[j].lru)))


# bytes a host payload may not take so that the `localhost` / IPv4 / IPv6 arms of
# Hyphe's patterns cannot match (stated in evidence as outside the claim)
HOST_EXCL = tuple(sorted(set([SEP]) | set(range(48, 58)) | set(b"lL[")))


def typed_lru(E, name, scheme=None, port=False, hosts=1, paths=0, L=1, www=False, host_excl=HOST_EXCL, special=None):
    """scheme stem (http/https chosen symbolically unless given), optional port,
    `hosts` host stems with symbolic payload, optional trailing concrete h:www,
    `paths` path stems with symbolic payload."""
    stems = []
    kinds = []
    if scheme is None:
        scheme = b"http" if E.choose(name + ".scheme", 2) == 0 else b"https"
    if isinstance(scheme, str):
        scheme = scheme.encode()
    stems.append(E.const(b"s:" + scheme + b"|"))
    kinds.append("s")
    if port:
        stems.append(E.const(b"t:80|"))
        kinds.append("t")
    if special is not None:
        if isinstance(special, str):
            special = special.encode()
        # a concrete single host from the localhost / IPv4 / IPv6 arm of Hyphe's patterns
        stems.append(E.const(b"h:" + special + b"|"))
        kinds.append("H")
        hosts = 0
    for h in range(hosts):
        stems.append(E.const(b"h:") + E.bytes("%s.h%d" % (name, h), L, exclude=host_excl) + E.const(b"|"))
        kinds.append("h")
    if www:
        stems.append(E.const(b"h:www|"))
        kinds.append("h")
    for q in range(paths):
        stems.append(E.const(b"p:") + E.bytes("%s.p%d" % (name, q), L) + E.const(b"|"))
        kinds.append("p")
    return PL(stems, name, kinds)


def typed_pool(E, specs, L=1, scheme=b"http", tag="t"):
    """specs: list of dicts(hosts=, paths=, port=, www=, scheme=)"""
    pool = []
    for i, sp in enumerate(specs):
        if "extend" in sp:
            base = pool[sp["extend"]]
            stems = list(base.stems)
            kinds = list(base.kinds)
            lens = sp.get("pathL") or [L] * sp.get("paths", 1)
            for q, ln in enumerate(lens):
                stems.append(E.const(b"p:") + payload(E, "%s%d.p%d" % (tag, i, q), ln, sparse=True) + E.const(b"|"))
                kinds.append("p")
            pool.append(PL(stems, "%s%d" % (tag, i), kinds))
            continue
        pool.append(typed_lru(E, "%s%d" % (tag, i), scheme=sp.get("scheme", scheme), port=sp.get("port", False),
                              hosts=sp.get("hosts", 2), paths=sp.get("paths", 0), L=L, www=sp.get("www", False),
                              special=sp.get("special")))
    distinct(E, pool)
    return pool


def rule_prefix(pl, rule):
    """Structural model of Hyphe's rule family on a typed LRU: the prefix the rule
    proposes (a PL) or None.  Independent of any regex engine.  Valid because host
    payloads are kept off the localhost / IPv4 / IPv6 arms of the patterns and
    payloads are too short (<= 2 bytes) to contain a second 's:x|' start."""
    if rule in (None, "never"):
        return None
    kinds = pl.kinds
    if not kinds or kinds[0] != "s":
        return None
    i = 1
    if i < len(kinds) and kinds[i] == "t":
        i += 1
    if i < len(kinds) and kinds[i] == "H":
        # single special host (localhost, IPv4, IPv6): every rule of the family takes it as the whole host part
        nh = 1
        if rule == "domain":
            return pl.prefix(i + 1)
    else:
        nh = 0
        while i + nh < len(kinds) and kinds[i + nh] == "h":
            nh += 1
        if nh < 2:
            return None
    if rule == "domain":
        return pl.prefix(i + 2)
    if rule == "subdomain":
        return pl.prefix(i + nh)
    if rule.startswith("path"):
        n = int(rule[4:])
        j = i + nh
        k = 0
        while j + k < len(kinds) and kinds[j + k] == "p":
            k += 1
        if k < n:
            return None
        return pl.prefix(j + n)
    raise ValueError(rule)


def variations(E, pl):
    """Structural spec of the scheme/www variation class of a typed prefix (list of PL, the prefix first)."""
    kinds = pl.kinds
    www = E.const(b"h:www|")
    out = [pl]
    alt = None
    if kinds and kinds[0] == "s":
        s0 = pl.stems[0]
        if same(s0, b"s:http|"):
            alt = E.const(b"s:https|")
        elif same(s0, b"s:https|"):
            alt = E.const(b"s:http|")
    if alt is not None:
        out.append(PL([alt] + pl.stems[1:], pl.name + "~s", kinds))
    hidx = [i for i, k in enumerate(kinds or []) if k == "h"]
    if len(hidx) >= 2:
        last = hidx[-1]
        if same(pl.stems[last], www):
            if len(hidx) - 1 >= 2:
                st = pl.stems[:last] + pl.stems[last + 1:]
                kd = kinds[:last] + kinds[last + 1:]
            else:
                st = None
        else:
            st = pl.stems[:last + 1] + [www] + pl.stems[last + 1:]
            kd = kinds[:last + 1] + ["h"] + kinds[last + 1:]
        if st is not None:
            out.append(PL(st, pl.name + "~w", kd))
            if alt is not None:
                out.append(PL([alt] + st[1:], pl.name + "~sw", kd))
    return out


class Assoc(object):
    """Association list keyed by byte strings compared with (possibly symbolic) =="""

    def __init__(self):
        self.k = []
        self.v = []

    def find(self, key):
        for i in range(len(self.k)):
            if same(self.k[i], key):
                return i
        return -1

    def get(self, key, default=None):
        i = self.find(key)
        return default if i < 0 else self.v[i]

    def has(self, key):
        return self.find(key) >= 0

    def set(self, key, value):
        i = self.find(key)
        if i < 0:
            self.k.append(key)
            self.v.append(value)
            return True
        self.v[i] = value
        return False

    def pop(self, key):
        i = self.find(key)
        if i >= 0:
            del self.k[i]
            return self.v.pop(i)
        return None

    def items(self):
        return list(zip(self.k, self.v))

    def __len__(self):
        return len(self.k)

    def copy(self):
        a = Assoc()
        a.k = list(self.k)
        a.v = list(self.v)
        return a


class Ref(object):
    """Reference model of the index: what the API documentation says the index
    holds after a history of requests.  No dependence on `traph`."""

    def __init__(self):
        self.pages = Assoc()       # lru -> crawled
        self.links = []            # [s, t, n] submissions of s->t
        self.nlinks = 0
        self.prefixes = Assoc()    # lru -> weid
        self.known = Assoc()       # every stem-prefix named in a write -> PL
        self.rules = Assoc()       # anchor lru -> rule name
        self.default_rule = None
        self.last_id = 0
        self.issued = []
        self.created = []          # automatic creations (weid, [PL]) of the current request

    # -- writes -------------------------------------------------------------------
    def name(self, pl):
        for p in pl.prefixes():
            self.known.set(p.lru, p)

    def add_page(self, pl, crawled=False):
        """-> True iff the page is new"""
        self.name(pl)
        i = self.pages.find(pl.lru)
        if i < 0:
            self.pages.set(pl.lru, [pl, bool(crawled)])
            return True
        if crawled:
            self.pages.v[i][1] = True
        return False

    def insert(self, E, pl, crawled=False):
        """Model of one page insertion including automatic webentity creation.
        -> True iff the page is new; creations are appended to self.created as (weid, [PL...])"""
        new = self.add_page(pl, crawled)
        if self.default_rule is None and len(self.rules) == 0:
            return new
        w, e = self.resolve(pl)
        elen = len(e.stems) if e is not None else 0
        K = None
        for anchor, rule in self.rules.items():
            a = self.known.get(anchor)
            if a is not None and is_stem_prefix(a, pl):
                cand = rule_prefix(pl, rule)
                if cand is not None and (K is None or len(cand.stems) > len(K.stems)):
                    K = cand
        if e is not None and (0 if K is None else len(K.stems)) <= elen:
            return new
        if K is None:
            K = rule_prefix(pl, self.default_rule)
            if K is None:
                return new
        vs = variations(E, K)
        valid = []
        for v in vs:
            self.name(v)
            if not self.prefixes.has(v.lru):
                valid.append(v)
        if valid:
            weid = self.new_id()
            for v in valid:
                self.prefixes.set(v.lru, weid)
            self.created.append((weid, valid))
        return new

    def add_link(self, s, t):
        self.nlinks += 1
        for e in self.links:
            if same(e[0].lru, s.lru) and same(e[1].lru, t.lru):
                e[2] += 1
                return
        self.links.append([s, t, 1])

    def weight(self, s_lru, t_lru):
        for e in self.links:
            if same(e[0].lru, s_lru) and same(e[1].lru, t_lru):
                return e[2]
        return 0

    def new_id(self):
        self.last_id += 1
        self.issued.append(self.last_id)
        return self.last_id

    # -- reads --------------------------------------------------------------------
    def resolve(self, pl):
        """-> (weid, prefix PL) of the longest stem-prefix of pl carrying a webentity, or (None, None)"""
        for k in range(len(pl.stems), 0, -1):
            p = pl.prefix(k)
            w = self.prefixes.get(p.lru)
            if w is not None:
                return w, p
        return None, None

    def page_list(self):
        return [v[0] for v in self.pages.v]

    def crawled(self, lru):
        v = self.pages.get(lru)
        return None if v is None else v[1]


def match_multiset(E, got, expected, label, key=None):
    """`got` (byte strings from the implementation) must be exactly the byte strings
    `expected` (pairwise distinct), each once.  Returns for each got item the index
    of the expected item it equals."""
    E.check(len(got) == len(expected), label + ":count", "got %d expected %d" % (len(got), len(expected)))
    used = [False] * len(expected)
    out = []
    for g in got:
        g = E.wrap(g)
        hit = -1
        for i, x in enumerate(expected):
            if same(x, g):
                hit = i
                break
        E.check(hit >= 0, label + ":unknown-item", "an item of the answer equals no expected item")
        E.check(not used[hit], label + ":duplicate", "an item appears twice in the answer")
        used[hit] = True
        out.append(hit)
    return out
