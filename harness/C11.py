"""C11 Close and reopen preserves everything; clear empties everything."""
from harness.common import typed_pool, Ref, RULES, NEVER
from harness.driver import History
from harness.twin import Twin, read_battery
from harness.netstate import POOL4

ID = "C11"
FUNCTIONS = ["Traph.close", "Traph.__init__", "Traph.clear", "FileStorage.check_for_corruption", "LRUTrieHeader.__ensure",
             "LRUTrieHeader.read", "LinkStoreHeader.__ensure", "Traph.add_webentity_creation_rule_iter", "FileStorage.write"]
REQUIRED = ["twin:outcome", "twin:answer", "reopen:refused", "files:whole-blocks", "reach:reopened", "reach:reopened-twice",
            "reach:cleared", "reach:write-after-reopen", "reach:rule-resupplied", "reach:op:page", "reach:op:links", "reach:op:we"]
OUTSIDE = ["more than 3 requests with a reopen flag after each", "OS durability: close() is assumed to persist what was written (shim file system; real files in replays)"]

TPOOL = [POOL4[0], POOL4[1], POOL4[3]]


STR_POOL = [["s:http|", "h:com|", "h:caf\u00e9|"], ["s:http|", "h:com|", "h:caf\u00e9|", "p:a|"], ["s:http|", "h:com|", "h:caf\u00e9|", "p:\u65e5|", "p:b|"]]


def levels(tier):
    if tier == "quick":
        return [
            {"name": "n2", "n": 2, "alphabet": ["page", "we", "rule"], "rule_patterns": ["path1"], "clear": True,
             "tpool": [0, 1]},
            {"name": "rule-del", "n": 1, "prelude": [["rule", [1, 3, "path1"]], ["page", 1, False]], "alphabet": ["delwe", "page", "we"], "clear": True},
            {"name": "memory-clear", "n": 2, "alphabet": ["page", "we"], "clear": True, "backend": "memory", "tpool": [0, 1]},
            {"name": "special-clear", "n": 2, "alphabet": ["page"], "clear": True, "pool": [{"special": "LocalHost", "paths": 1}, {"hosts": 2}]},
            {"name": "str-rules", "n": 2, "concrete": STR_POOL, "as_str": True, "alphabet": ["rule", "page"], "rule_patterns": ["path1"], "clear": False},
            {"name": "n1-wide", "n": 1, "alphabet": ["page", "links", "we", "rule", "batch", "addprefix"], "links_batch": 1, "batch_targets": 1,
             "rule_patterns": ["path1"], "clear": True},
        ]
    return [
        {"name": "n2-wide", "n": 2, "alphabet": ["page", "links", "we", "rule", "delwe"], "links_batch": 1, "rule_patterns": ["path1"], "clear": True,
         "tpool": [0, 1]},
        {"name": "rule-del-n2", "n": 2, "prelude": [["rule", [1, 3, "path1"]], ["page", 1, False]], "alphabet": ["delwe", "page", "we"], "clear": True},
        {"name": "memory-clear-n3", "n": 3, "alphabet": ["page", "we"], "clear": True, "backend": "memory", "tpool": [0, 1]},
        {"name": "n3", "n": 3, "alphabet": ["page", "we"], "clear": True, "tpool": [0, 1]},
    ]


def sizes_ok(E, t):
    a = E.raw_store(t, "trie")
    b = E.raw_store(t, "links")
    E.check(len(a) % t.lru_trie_storage.block_size == 0 and len(b) % t.links_store_storage.block_size == 0, "files:whole-blocks",
            "store sizes %d / %d are not whole numbers of blocks" % (len(a), len(b)))


def harness(E):
    P = E.params
    if P.get("concrete"):
        from harness.common import concrete_pool
        pool = concrete_pool(E, P["concrete"])
    else:
        pool = typed_pool(E, P["pool"] if P.get("pool") else [TPOOL[i] for i in P.get("tpool", [0, 1, 2])], L=1)
    memory = P.get("backend") == "memory"
    ref = Ref()
    ref.default_rule = "domain"
    fa = None if memory else E.fresh_folder("a")
    fb = None if memory else E.fresh_folder("b")
    a = E.Traph(folder=fa, default_webentity_creation_rule=RULES["domain"], webentity_creation_rules={})
    b = E.Traph(folder=fb, default_webentity_creation_rule=RULES["domain"], webentity_creation_rules={})
    tw = Twin(E, a, b)
    h = History(E, tw, ref, pool, P["alphabet"], P)
    h.prelude(P.get("prelude"))
    reopened = 0
    for i in range(P["n"]):
        if reopened:
            E.reach("write-after-reopen")
        h.step(i)
        act = E.choose("after%d" % i, 3 if P.get("clear") else 2)     # 0: go on, 1: close+reopen the first index, 2: clear both
        if memory and act == 1:
            E.assume(False)        # an in-memory index cannot be reopened
        if act != 0:
            read_battery(E, tw, pool)      # observations before the restart/clear as well (query, restart, query again)
        if act == 1:
            sizes_ok(E, tw.a)
            E.call("close", tw.a.close, _allowed=())
            rules = h.current_rules()
            if rules:
                E.reach("rule-resupplied")
            if P.get("as_str"):
                # the rules are re-supplied the way they were given: with str prefixes
                rules = dict((bytes(getattr(k, "items", k)).decode("utf-8"), v) for k, v in rules.items())
            ok, a2 = E.call("reopen", lambda: E.Traph(folder=fa, default_webentity_creation_rule=RULES["domain"], webentity_creation_rules=rules))
            E.check(ok, "reopen:refused", "reopening a cleanly closed index was refused")
            tw.__dict__["a"] = a2
            reopened += 1
            E.reach("reopened")
            if reopened >= 2:
                E.reach("reopened-twice")
        elif act == 2:
            # clear the first index; the second one is replaced by a freshly created index with the same rules
            E.reach("cleared")
            # the rules in force are re-supplied to the clear request; the twin is a freshly created index holding them
            rules = h.current_rules()
            anchors = [(lru, rn) for lru, rn in ref.rules.items()]
            known = dict((id(lru), ref.known.get(lru)) for lru, rn in anchors)
            E.call("clear", tw.a.clear, RULES["domain"], dict(rules), _allowed=())
            tw.b.close()
            fb = None if memory else E.fresh_folder("b%d" % i)
            tw.__dict__["b"] = E.Traph(folder=fb, default_webentity_creation_rule=RULES["domain"], webentity_creation_rules=dict(rules))
            fresh = Ref()
            fresh.default_rule = "domain"
            ref.__dict__.update(fresh.__dict__)
            for lru, rn in anchors:
                ref.name(known[id(lru)])
                ref.rules.set(lru, rn)
        if act != 0 or i == P["n"] - 1:
            read_battery(E, tw, pool)
    if not memory:
        sizes_ok(E, tw.a)
    ta, tb = E.raw_store(tw.a, "trie"), E.raw_store(tw.b, "trie")
    la, lb = E.raw_store(tw.a, "links"), E.raw_store(tw.b, "links")
    E.check(E.all(E.eq(ta, tb), E.eq(la, lb)), "twin:stores", "the reopened/cleared index and its never-closed twin hold different bytes")
    E.observe("sizes", [len(ta), len(la)])
    tw.a.close()
    tw.b.close()
