"""C16 Cooperative interleaving of iterator requests is safe."""
from harness.common import typed_pool, Ref, RULES, NEVER, same, match_multiset
from harness.driver import History
from harness.netstate import POOL4, POOL5
from harness.C03 import oracle as link_oracle

ID = "C16"
FUNCTIONS = ["Traph.index_batch_crawl_iter", "Traph.add_webentity_creation_rule_iter", "Traph.get_webentity_pages_iter",
             "Traph.get_webentities_links_iter", "TraphIteratorState.should_yield", "LRUTrieNode.refresh",
             "LinkStore.add_links", "Traph.__add_page", "LRUTrie.dfs_iter", "LRUTrie.webentity_dfs_iter"]
REQUIRED = ["schedule:no-failure", "schedule:final-pages:count", "schedule:query-lower", "schedule:query-upper",
            "page_links:count", "reach:interleaved", "reach:sequential", "reach:query-during-write", "reach:rule-during-batch"]
OUTSIDE = ["more than 3 concurrent generators; batches of more than 2 sources x 2 targets", "OS threads/processes (the library is single-threaded by design)"]
STUBS_EXTRA = ["TraphIteratorState.should_yield replaced by `always True` (every loop iteration is a yield point, as the property states)"]

# scenarios: list of generator specs over POOL5 indices
SC = {
    "two-batches": [["batch", {"0": [1, 2]}], ["batch", {"2": [1, 3]}]],
    "batch-shared-target": [["batch", {"1": [3, 3]}], ["batch", {"4": [3, 1]}]],
    "batch+pages": [["batch", {"1": [2, 4]}], ["pagesq"]],
    "batch+net": [["batch", {"1": [2, 3]}], ["netq"]],
    "rule+batch": [["rule", [0, 3, "path1"]], ["batch", {"1": [2, 4]}]],
    "rule+pages": [["rule", [0, 3, "path1"]], ["pagesq"]],
    "three": [["batch", {"1": [2]}], ["rule", [0, 3, "path1"]], ["pagesq"]],
    "three-b": [["batch", {"1": [4]}], ["batch", {"4": [1]}], ["netq"]],
    # concurrent queries walking link lists (two webentities, lists of two stubs)
    "two-outlinks": [["outlinksq", 0], ["outlinksq", 1]],
    "out+in": [["outlinksq", 0], ["inlinksq", 1]],
    "pagelinks+out": [["pagelinksq", 0], ["outlinksq", 1]],
    "pagelinks+batch": [["pagelinksq", 0], ["batch", {"3": [1, 4]}]],
    "child+rule": [["childq", 0], ["rule", [0, 3, "path1"]]],
    "outlinks+net": [["outlinksq", 0], ["netq"]],
    "outlinks+rule": [["outlinksq", 0], ["rule", [0, 3, "path1"]]],
    "pagelinks+rule": [["pagelinksq", 1], ["rule", [0, 3, "path1"]]],
}
PRELUDE2 = [["links", [[1, 3], [1, 2], [3, 1], [3, 4]]], ["we", [[0, 3]]], ["we", [[3, 3]]]]
PRELUDE = [["page", 0, False], ["page", 1, True], ["links", [[1, 0]]], ["we", [[0, 3]]]]


def levels(tier):
    if tier == "quick":
        return [
            {"name": "pairs", "scenarios": ["two-batches", "batch+pages", "batch+net", "rule+batch", "rule+pages"], "prelude": PRELUDE},
            {"name": "link-queries", "scenarios": ["two-outlinks", "out+in", "pagelinks+out", "pagelinks+batch", "outlinks+rule"], "prelude": PRELUDE2, "final_battery": True},
        ]
    return [
        {"name": "pairs", "scenarios": ["two-batches", "batch-shared-target", "batch+pages", "batch+net", "rule+batch", "rule+pages"], "prelude": PRELUDE},
        {"name": "triples", "scenarios": ["three", "three-b"], "prelude": PRELUDE},
        {"name": "link-queries", "scenarios": ["two-outlinks", "out+in", "pagelinks+out", "pagelinks+batch", "child+rule", "outlinks+net", "outlinks+rule",
                                                 "pagelinks+rule"], "prelude": PRELUDE2, "final_battery": True},
    ]


QUERIES = ("pagesq", "netq", "outlinksq", "inlinksq", "childq", "pagelinksq")


def triple_in(E, xs, tr):
    for x in xs:
        if same(x[0], tr[0]) and same(x[1], tr[1]) and x[2] == tr[2]:
            return True
    return False


def lru_set_contains(E, xs, lru):
    for x in xs:
        if same(x, lru):
            return True
    return False


def harness(E):
    P = E.params
    name = P["scenarios"][E.choose("scenario", len(P["scenarios"]))]
    specs = SC[name]
    pool = typed_pool(E, POOL5, L=1)
    ref = Ref()
    t = E.Traph(folder=None, default_webentity_creation_rule=NEVER, webentity_creation_rules={})
    # stub: every loop iteration is a yield point
    E.module("traph.traph_iterator_state").TraphIteratorState.should_yield = lambda self, yield_frequency=1: (
        setattr(self, "n_iterations", self.n_iterations + 1) or True)
    h = History(E, t, ref, pool, ["page"], P)
    h.prelude(P.get("prelude"))
    alive0 = h.alive()
    weid, wprefixes = alive0[0]
    wprefixes = list(wprefixes)
    SETQ = {"outlinksq": ("get_webentity_outlinks_iter", "get_webentity_outlinks"),
            "inlinksq": ("get_webentity_inlinks_iter", "get_webentity_inlinks"),
            "childq": ("get_webentity_child_webentities_iter", "get_webentity_child_webentities")}

    def target(g):
        w, pf = alive0[g["spec"][1] % len(alive0)]
        return w, list(pf)

    def atomic(kind, g=None):
        if kind == "pagesq":
            ok, r = E.call("get_webentity_pages", t.get_webentity_pages, weid, wprefixes, _allowed=())
            return [E.wrap(x["lru"]) for x in r]
        if kind in SETQ:
            w, pf = target(g)
            ok, r = E.call(SETQ[kind][1], getattr(t, SETQ[kind][1]), w, pf, _allowed=())
            return set(x for x in r if x is not None)
        if kind == "pagelinksq":
            w, pf = target(g)
            ok, r = E.call("get_webentity_pagelinks", t.get_webentity_pagelinks, w, pf, include_inbound=True, include_internal=True,
                           include_outbound=True, _allowed=())
            return [(E.wrap(a), E.wrap(b), wt) for a, b, wt in r]
        ok, r = E.call("get_webentities_links", t.get_webentities_links, out=True, include_auto=True, _allowed=())
        return dict(((a, b), w) for a, row in r.items() for b, w in row.items() if not isinstance(b, str))

    gens = []
    for spec in specs:
        kind = spec[0]
        if kind == "batch":
            data = {}
            for s, ts in spec[1].items():
                data[pool[int(s)].lru] = [pool[j].lru for j in ts]
            g = t.index_batch_crawl_iter(data, 1)
        elif kind == "rule":
            li, k, rn = spec[1]
            g = t.add_webentity_creation_rule_iter(pool[li].prefix(k).lru, RULES[rn])
        elif kind == "pagesq":
            g = t.get_webentity_pages_iter(weid, wprefixes)
        elif kind == "netq":
            g = t.get_webentities_links_iter(out=True, include_auto=True)
        elif kind in SETQ:
            w, pf = alive0[spec[1] % len(alive0)]
            g = getattr(t, SETQ[kind][0])(w, list(pf))
        elif kind == "pagelinksq":
            w, pf = alive0[spec[1] % len(alive0)]
            g = t.get_webentity_pagelinks_iter(w, list(pf), include_inbound=True, include_internal=True, include_outbound=True)
        gens.append({"kind": kind, "gen": g, "done": False, "result": None, "started": False, "snaps": [], "steps": 0, "spec": spec})

    order = []
    guard = 0
    while True:
        live = [g for g in gens if not g["done"]]
        if not live:
            break
        guard += 1
        E.check(guard <= 60, "schedule:terminates", "the generators do not finish")
        g = live[E.choose("s%d" % guard, len(live))]
        order.append(gens.index(g))
        if g["kind"] in QUERIES and not g["started"]:
            g["snaps"].append(atomic(g["kind"], g))       # state when the query starts
        g["started"] = True
        try:
            st = next(g["gen"])
            g["steps"] += 1
            if st.done:
                g["done"] = True
                g["result"] = st.result
        except StopIteration:
            g["done"] = True
        except Exception as e:
            if type(e).__name__ in ("CheckFailed", "ScenarioMismatch"):
                raise
            E.check(False, "schedule:no-failure", "%s request failed with %s: %s" % (g["kind"], type(e).__name__, e))
        E.check(True, "schedule:no-failure")
        for q in gens:
            if q["kind"] in QUERIES and q["started"] and (not q["done"] or q is g):
                q["snaps"].append(atomic(q["kind"], q))   # state after this step, within the query's lifetime
    switches = len([1 for a, b in zip(order, order[1:]) if a != b])
    if switches >= len(gens):
        E.reach("interleaved")
    else:
        E.reach("sequential")
    kinds = [g["kind"] for g in gens]
    if "rule" in kinds and "batch" in kinds and switches >= 2:
        E.reach("rule-during-batch")

    # final pages and links = the batches applied one after another
    for g in gens:
        if g["kind"] == "batch":
            for s, ts in g["spec"][1].items():
                ref.add_page(pool[int(s)], True)
                for j in ts:
                    ref.add_page(pool[j], False)
                    ref.add_link(pool[int(s)], pool[j])
    ok, res = E.call("pages_iter", lambda: [(lru, node.is_crawled()) for node, lru in t.pages_iter()], _allowed=())
    exp = ref.page_list()
    idx = match_multiset(E, [r[0] for r in res], [p.lru for p in exp], "schedule:final-pages")
    for (lru, crawled), i in zip(res, idx):
        E.check(bool(crawled) == ref.pages.v[i][1], "schedule:final-pages:crawled", "crawled mark differs from the sequential application")
    link_oracle(E, t, ref)       # weights, in/out symmetry, transposes, degrees

    # each query answer lies between what qualified throughout and what qualified at some moment
    for g in gens:
        if g["kind"] == "pagesq":
            if len(g["snaps"]) > 2 and len(gens) > 1:
                E.reach("query-during-write")
            ans = [E.wrap(x["lru"]) for x in g["result"]]
            for lru in g["snaps"][0]:
                if all(lru_set_contains(E, s, lru) for s in g["snaps"]):
                    E.check(lru_set_contains(E, ans, lru), "schedule:query-lower", "a page that belonged to the webentity throughout the query is missing from its answer")
            for lru in ans:
                E.check(any(lru_set_contains(E, s, lru) for s in g["snaps"]), "schedule:query-upper",
                        "the answer lists a page that belonged to the webentity at no moment of the query")
            for i in range(len(ans)):
                for j in range(i):
                    E.check(not same(ans[i], ans[j]), "schedule:query-upper", "a page is listed twice")
        elif g["kind"] in ("outlinksq", "inlinksq", "childq"):
            ans = set(x for x in g["result"] if x is not None)
            low = set.intersection(*g["snaps"])
            high = set.union(*g["snaps"])
            E.check(low <= ans, "schedule:query-lower", "%s answer %s misses %s that qualified throughout" % (g["kind"], sorted(ans), sorted(low - ans)))
            E.check(ans <= high, "schedule:query-upper", "%s answer %s lists %s that qualified at no moment" % (g["kind"], sorted(ans), sorted(ans - high)))
        elif g["kind"] == "pagelinksq":
            ans = [(E.wrap(a), E.wrap(b), wt) for a, b, wt in g["result"]]
            for tr in g["snaps"][0]:
                if all(triple_in(E, sn, tr) for sn in g["snaps"]):
                    E.check(triple_in(E, ans, tr), "schedule:query-lower", "a page link present throughout the query is missing from its answer")
            for tr in ans:
                E.check(any(triple_in(E, sn, tr) for sn in g["snaps"]), "schedule:query-upper", "the answer lists a page link that existed at no moment of the query")
        elif g["kind"] == "netq":
            if len(g["snaps"]) > 2:
                E.reach("query-during-write")
            ans = dict(((a, b), w) for a, row in g["result"].items() for b, w in row.items() if not isinstance(b, str))
            keys = set(ans)
            for s in g["snaps"]:
                keys |= set(s)
            for k in keys:
                lo = min(s.get(k, 0) for s in g["snaps"])
                hi = max(s.get(k, 0) for s in g["snaps"])
                E.check(ans.get(k, 0) >= lo, "schedule:query-lower", "network weight %s=%r below its minimum %d over the query's lifetime" % (k, ans.get(k, 0), lo))
                E.check(ans.get(k, 0) <= hi, "schedule:query-upper", "network weight %s=%r above its maximum %d over the query's lifetime" % (k, ans.get(k, 0), hi))
    # afterwards (nothing running any more) queries must see the final state: nothing cached during the schedule may survive
    for g in gens:
        if g["kind"] == "rule" and g["result"] is not None:
            li, k, rn = g["spec"][1]
            a = pool[li].prefix(k)
            ref.name(a)
            ref.rules.set(a.lru, rn)
            ref.created = []
            h.install_model(a, g["result"])
    if P.get("final_battery") and not ("rule" in kinds and "batch" in kinds):
        # (with a rule installation and a crawl batch in flight together, which webentity ids the batch's pages get
        # depends on the schedule; the final-state model below does not follow that, so those scenarios stop at the checks above)
        from harness.C08 import battery as c08_battery
        from harness.C07 import battery as c07_battery
        c08_battery(E, t, h)
        c07_battery(E, t, h)
    E.observe("order", order)
    E.observe("pages", [[r[0], bool(r[1])] for r in res])
