"""C20 Most-linked pages are the true top-k by distinct inbound sources."""
from harness.netstate import build, owners, page_index, POOL4, POOL5
from harness.common import same

ID = "C20"
FUNCTIONS = ["Traph.get_webentity_most_linked_pages_iter", "LRUTrie.webentity_dfs_iter", "LinkStore.weighted_link_nodes_iter"]
REQUIRED = ["most_linked:size", "most_linked:members", "most_linked:order", "most_linked:indegree", "most_linked:topk",
            "reach:unlinked-page", "reach:self-link", "reach:repeated-link", "reach:two-sources", "reach:depth-limit", "reach:k-cuts"]
OUTSIDE = ["more than 5 pool LRUs, more than 2 free requests after the template"]

# template: webentity on pool[0]'s prefix (3 stems) with pages at depth 0,1,2 beneath; links with repeats, a self-link, several sources
TPL = [["page", 0, False], ["links", [[1, 2], [1, 2], [3, 2], [2, 2], [3, 1], [2, 0]]], ["we", [[0, 3]]]]


STR_POOL = [["s:http|", "h:com|", "h:caf\u00e9|"], ["s:http|", "h:com|", "h:caf\u00e9|", "p:a|"], ["s:http|", "h:com|", "h:caf\u00e9|", "p:a|", "p:\u65e5|"],
            ["s:http|", "h:org|", "h:x|", "p:z|"]]


def levels(tier):
    if tier == "quick":
        return [
            {"name": "tpl-n1", "n": 1, "prelude": TPL, "alphabet": ["links", "page", "we"], "links_batch": 1, "defaults": ["never"],
             "ks": [1, 2, 3, 5], "depths": [None, 0, 1, 2]},
            {"name": "n2", "n": 2, "alphabet": ["links", "we"], "links_batch": 1, "defaults": ["domain"], "pool": [POOL4[0], POOL4[1], POOL4[3]],
             "ks": [1, 2], "depths": [None, 0]},
            {"name": "str-prefixes", "n": 1, "concrete": STR_POOL, "as_str": True, "str_prefixes": True,
             "prelude": [["page", 0, False], ["links", [[1, 2], [3, 2], [3, 1], [2, 0]]], ["we", [[0, 3]]]],
             "alphabet": ["links", "page"], "links_batch": 1, "defaults": ["never"], "ks": [1, 2, 3], "depths": [None, 1]},
            {"name": "requery", "n": 1, "prelude": TPL, "alphabet": ["we", "addprefix", "delwe", "moveprefix"], "defaults": ["never"],
             "ks": [1, 2], "depths": [None, 1], "requery": True},
            {"name": "nested-prefixes", "n": 1, "prelude": [["page", 0, False], ["links", [[3, 2], [0, 2], [3, 1], [2, 0]]], ["we", [[0, 3], [1, 4]]]],
             "alphabet": ["links", "page"], "links_batch": 1, "defaults": ["never"], "ks": [1, 2, 3], "depths": [None, 1]},
        ]
    return [
        {"name": "nested-prefixes-n2", "n": 2, "prelude": [["page", 0, False], ["links", [[3, 2], [0, 2], [3, 1], [2, 0]]], ["we", [[0, 3], [1, 4]]]],
         "alphabet": ["links", "page"], "links_batch": 1, "defaults": ["never"], "ks": [1, 2, 3], "depths": [None, 1]},
        {"name": "tpl-n2", "n": 2, "prelude": TPL, "alphabet": ["links", "page", "we"], "links_batch": 1, "defaults": ["never"],
         "ks": [1, 2, 3, 4], "depths": [None, 0, 1, 2]},
        {"name": "n3", "n": 3, "alphabet": ["links", "we"], "links_batch": 1, "defaults": ["domain"], "pool": [POOL4[0], POOL4[1], POOL4[3]],
         "ks": [1, 2], "depths": [None]},
    ]


def battery(E, t, h, P, sel=None):
    ref = h.ref
    sel = {} if sel is None else sel

    def pick(name, n):
        if name not in sel:
            sel[name] = E.choose(name, n)
        return sel[name] % n
    pages, own = owners(ref)
    # true indegree = number of distinct sources (self included)
    indeg = []
    for pl in pages:
        srcs = [s for s, d, w in ref.links if same(d.lru, pl.lru)]
        indeg.append(len(srcs))
        if not srcs:
            E.reach("unlinked-page")
        if len(srcs) >= 2:
            E.reach("two-sources")
    for s, d, w in ref.links:
        if same(s.lru, d.lru):
            E.reach("self-link")
        if w > 1:
            E.reach("repeated-link")
    alive = h.alive()
    if not alive:
        return
    weid, prefix_lrus = alive[pick("we", len(alive))]
    k = P["ks"][pick("k", len(P["ks"]))]
    depth = P["depths"][pick("depth", len(P["depths"]))]
    # candidates: pages of W within the depth limit below one of the prefixes given
    cand = []
    for i, pl in enumerate(pages):
        if own[i] != weid:
            continue
        best = None
        for lru in prefix_lrus:
            q = ref.known.get(lru)
            if len(q.stems) <= len(pl.stems) and same(pl.prefix(len(q.stems)).lru, lru):
                dd = len(pl.stems) - len(q.stems)
                best = dd if best is None else min(best, dd)
        if best is None:
            continue
        if depth is not None and best > depth:
            E.reach("depth-limit")
            continue
        cand.append(i)
    args = list(prefix_lrus)
    if P.get("str_prefixes"):
        args = [bytes(getattr(x, "items", x)).decode("utf-8") for x in args]     # the API accepts str and UTF-8-encodes it
    ok, got = E.call("get_webentity_most_linked_pages", t.get_webentity_most_linked_pages, weid, args,
                     pages_count=k, max_depth=depth)
    E.check(ok, "most_linked:refused")
    if len(cand) > k:
        E.reach("k-cuts")
    E.check(len(got) == min(k, len(cand)), "most_linked:size", "%d entries for k=%d and %d qualifying pages" % (len(got), k, len(cand)))
    listed = []
    for g in got:
        i = page_index(pages, E.wrap(g["lru"]))
        E.check(i >= 0 and i in cand, "most_linked:members", "a listed page is not a page of the webentity within the depth limit")
        E.check(i not in listed, "most_linked:members", "a page is listed twice")
        listed.append(i)
    degs = [g["indegree"] for g in got]
    E.check(all(a >= b for a, b in zip(degs, degs[1:])), "most_linked:order", "reported indegrees %s are not non-increasing" % degs)
    rank = list(indeg)      # the figure the ordering is judged by
    for g, i in zip(got, listed):
        if indeg[i] == 0 and g["indegree"] == 1:
            # the one deviation recorded as a known finding: labelled apart from any other,
            # and the rest of the answer is still checked with that page ranked as reported
            E.soft_fail("most_linked:indegree0-reported-as-1", "a page nobody links to is reported with indegree 1")
            for j in range(len(rank)):
                if indeg[j] == 0:
                    rank[j] = 1
            continue
        E.check(g["indegree"] == indeg[i], "most_linked:indegree", "indegree %r reported, %d distinct pages link to it" % (g["indegree"], indeg[i]))
    if listed:
        low = min(rank[i] for i in listed)
        for i in cand:
            if i not in listed:
                E.check(rank[i] <= low, "most_linked:topk", "an omitted page has indegree %d, a listed one %d" % (rank[i], low))
    E.observe("top", [[g["lru"], g["indegree"]] for g in got])


def harness(E):
    P = E.params
    sel = {}
    if P.get("requery"):
        # ask, change the webentities (no page or link write), ask again with the same parameters
        t, h, pool = build(E, P, after_step=lambda t_, h_: battery(E, t_, h_, P, sel))
    else:
        t, h, pool = build(E, P)
    battery(E, t, h, P, sel)
