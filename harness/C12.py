"""C12 Webentity ids are fresh, increasing and survive restarts."""
from harness.common import typed_pool, Ref, RULES, NEVER, same
from harness.driver import History

ID = "C12"
FUNCTIONS = ["Traph.__generated_web_entity_id", "LRUTrieHeader.increment_last_webentity_id", "LRUTrieHeader.write",
             "LRUTrieHeader.read", "Traph.create_webentity", "Traph.__create_webentity", "Traph.delete_webentity",
             "Traph.add_webentity_creation_rule", "Traph.clear", "Traph.close", "Traph.__init__"]
REQUIRED = ["ids:fresh", "ids:one-per-request", "ids:attached", "reach:op:we", "reach:op:delwe", "reach:op:page",
            "reach:op:reopen", "reach:op:clear", "reach:op:rule", "reach:auto-created", "reach:id-after-delete", "reach:id-after-reopen"]
OUTSIDE = ["more than 5 id-relevant requests", "user-supplied ids (add_prefix_to_webentity with an arbitrary id) are not ids the index issued"]

POOL = [{"hosts": 2}, {"extend": 0, "paths": 1}, {"hosts": 2, "paths": 1}]


def levels(tier):
    alpha = ["we", "delwe", "page", "links", "rule", "reopen", "clear"]
    if tier == "quick":
        return [
            {"name": "n2", "n": 2, "alphabet": ["we", "delwe", "page", "rule", "reopen", "clear"], "rule_patterns": ["path1"], "we_two_prefixes": True},
            {"name": "n3", "n": 3, "alphabet": ["we", "delwe", "page", "reopen", "clear"]},
            {"name": "rule-restart", "n": 3, "prelude": [["page", 1, False]], "alphabet": ["rule", "reopen", "page"], "rule_patterns": ["path1"]},
            {"name": "n4-small", "n": 4, "alphabet": ["we", "delwe", "reopen", "page"], "pool": POOL[:2]},
            {"name": "attach-n3", "n": 3, "prelude": [["we", [[0, 1]]]], "alphabet": ["we", "addprefix", "moveprefix", "page"], "pool": POOL[:2]},
        ]
    return [
        {"name": "n3-wide", "n": 3, "alphabet": ["we", "delwe", "page", "rule", "reopen", "clear"], "rule_patterns": ["path1"], "pool": POOL[:2]},
        {"name": "rule-restart-n4", "n": 4, "prelude": [["page", 1, False]], "alphabet": ["rule", "reopen", "page"], "rule_patterns": ["path1"], "pool": POOL[:2]},
        {"name": "attach-n4", "n": 4, "prelude": [["we", [[0, 1]]]], "alphabet": ["we", "addprefix", "moveprefix", "page"], "pool": POOL[:2]},
        {"name": "n5", "n": 5, "alphabet": ["we", "delwe", "page", "reopen"], "pool": POOL[:2]},
    ]


def harness(E):
    P = E.params
    pool = typed_pool(E, P.get("pool", POOL), L=1)
    folder = E.fresh_folder("idx")
    ref = Ref()
    ref.default_rule = "domain"
    t = E.Traph(folder=folder, default_webentity_creation_rule=RULES["domain"], webentity_creation_rules={})
    opts = dict(P)
    opts["folder"] = folder
    h = History(E, t, ref, pool, P["alphabet"], opts)
    h.prelude(P.get("prelude"))
    high = ref.last_id  # highest id issued since creation / last clear
    deleted = False
    reopened = False
    for i in range(P["n"]):
        kind, info = h.step(i)
        t = h.t
        if kind == "clear":
            high = 0
            deleted = reopened = False
            continue
        if kind == "delwe":
            deleted = True
        if kind == "reopen":
            reopened = True
        rep = info.get("report")
        new_ids = sorted(rep.created_webentities.keys()) if rep is not None else []
        if kind == "we" and info["ok"]:
            E.check(len(new_ids) == 1, "ids:one-per-request", "create_webentity reported ids %s" % new_ids)
        if kind == "page":
            E.check(len(new_ids) <= 1, "ids:one-per-request", "one page insertion created webentities %s" % new_ids)
            if new_ids:
                E.reach("auto-created")
        for w in new_ids:
            E.check(w > high, "ids:fresh", "id %d issued, but %d was already issued since creation/clear" % (w, high))
            if deleted:
                E.reach("id-after-delete")
            if reopened:
                E.reach("id-after-reopen")
            # every prefix the request attached carries that one id
            for pfx in rep.created_webentities[w]:
                ok, got = E.call("get_webentity_by_prefix", t.get_webentity_by_prefix, pfx)
                E.check(ok and got == w, "ids:attached", "a prefix reported under id %d is attached to %r" % (w, got if ok else None))
        if new_ids:
            high = max(high, max(new_ids))
        # the model predicts the very same ids (last id + 1 per creation)
        exp = sorted(w for w, _ in info.get("created", [])) if kind != "we" else ([info["weid"]] if info["ok"] else [])
        E.check(new_ids == exp, "ids:sequence", "ids %s issued, model expects %s" % (new_ids, exp))
        ok, items = E.call("webentity_prefix_iter", lambda: [node.webentity() for node, lru in t.webentity_prefix_iter()], _allowed=())
        for w in items:
            E.check(1 <= w <= high, "ids:attached", "attached id %r was never issued (highest issued %d)" % (w, high))
        E.observe("ids%d" % i, new_ids)
    t.close()
