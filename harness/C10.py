"""C10 Pagelink pagination is complete, duplicate-free and resumable."""
from harness.netstate import build, owners, page_index, POOL4, POOL5
from harness.common import same
from harness.C03 import match_triples

ID = "C10"
FUNCTIONS = ["Traph.paginate_webentity_pagelinks", "LRUTrie.webentity_inorder_iter", "helpers.build_pagination_token",
             "helpers.parse_pagination_token", "Traph.get_webentity_pagelinks", "LinkStore.weighted_link_nodes_iter"]
REQUIRED = ["pagelinks:resume", "pagelinks:complete:count", "pagelinks:sources-per-answer", "pagelinks:done-flag", "reach:resumed",
            "reach:two-prefixes", "reach:linkless-page-between", "reach:linkless-prefix", "reach:internal", "reach:outbound"]
OUTSIDE = ["more than 5 pages / 2 prefixes / 3 link submissions after the template"]

# one webentity with two prefixes (pool[0][:3] and pool[3][:3]); pages 0,1,2,4 under the first, 3 under the second
TPL = [["page", 0, False], ["page", 1, False], ["page", 2, False], ["page", 3, False], ["page", 4, False], ["we", [[0, 3], [3, 3]]]]
# the same with a third prefix that holds no page at all (pool[5], a host-only LRU) between the two
# (a concrete host-only LRU that is never a page)
POOL6 = POOL5 + [{"special": "empty.example"}]
TPL3 = [["page", 0, False], ["page", 1, False], ["page", 2, False], ["page", 3, False], ["page", 4, False], ["we", [[0, 3], [5, 2], [3, 3]]]]



def levels(tier):
    if tier == "quick":
        return [
            {"name": "codec", "mode": "codec", "digits": [1, 3], "prefix_indices": [0, 9, 10, 11, 63, 64, 100]},
            {"name": "subset", "n": 0, "prelude": TPL, "subset": 2, "alphabet": ["links"], "defaults": ["never"], "pool": POOL5, "ks": [1, 2]},
            {"name": "empty-prefix", "n": 0, "prelude": TPL3, "subset": 2, "alphabet": ["links"], "defaults": ["never"], "pool": POOL6, "ks": [1, 2],
             "orders": 3},
            {"name": "interleaved", "n": 0, "prelude": TPL + [["links", [[0, 1], [0, 5], [1, 2], [1, 5], [4, 5], [2, 0]]]], "alphabet": ["links"],
             "defaults": ["never"], "pool": POOL5 + [{"hosts": 3}], "ks": [1, 2], "interleaved": True},
            {"name": "nested-child", "n": 0, "prelude": TPL + [["we", [[2, 5]]]], "subset": 2, "alphabet": ["links"], "defaults": ["never"], "pool": POOL5,
             "ks": [1, 2]},
            {"name": "requery", "n": 1, "prelude": TPL + [["we", [[2, 5]]], ["links", [[0, 1], [1, 2], [4, 2], [3, 0]]]], "alphabet": ["addprefix", "rmprefix", "moveprefix"],
             "defaults": ["never"], "pool": POOL5, "ks": [1], "requery": True},
        ]
    return [
        {"name": "subset3", "n": 0, "prelude": TPL, "subset": 3, "alphabet": ["links"], "defaults": ["never"], "pool": POOL5, "ks": [1, 2, 3, 5]},
        {"name": "empty-prefix3", "n": 0, "prelude": TPL3, "subset": 3, "alphabet": ["links"], "defaults": ["never"], "pool": POOL6, "ks": [1, 2, 3],
         "orders": 6},
        {"name": "subset-n1", "n": 1, "prelude": TPL, "subset": 2, "alphabet": ["links", "we", "addprefix"], "links_batch": 1, "defaults": ["never"], "pool": POOL5, "ks": [1, 2]},
        {"name": "tpl-n2", "n": 2, "prelude": TPL, "alphabet": ["links"], "links_batch": 1, "defaults": ["never"], "pool": POOL5, "ks": [1, 2, None]},
        {"name": "requery-n2", "n": 2, "prelude": TPL + [["we", [[2, 5]]], ["links", [[0, 1], [1, 2], [4, 2], [3, 0]]]], "alphabet": ["addprefix", "delwe"],
         "defaults": ["never"], "pool": POOL5, "ks": [1], "requery": True},
        {"name": "n3", "n": 3, "alphabet": ["links", "we"], "links_batch": 1, "defaults": ["never"], "pool": [POOL4[0], POOL4[1], POOL4[3]], "ks": [1]},
    ]


def harness(E):
    P = E.params
    if P.get("mode") == "codec":
        from harness.C09 import codec
        return codec(E, P)
    sel = {}
    if P.get("interleaved"):
        t, h, pool = build(E, P)
        return interleaved(E, P, t, h)
    if P.get("requery"):
        # paginate, edit the prefixes, paginate again with the same parameters: the second answer must follow the edit
        t, h, pool = build(E, P, after_step=lambda t_, h_: paginate_check(E, P, t_, h_, pool_of(h_), "a", sel))
        return paginate_check(E, P, t, h, pool, "b", sel)
    t, h, pool = build(E, P)
    return paginate_check(E, P, t, h, pool, "", sel)


def pool_of(h):
    return h.pool


def interleaved(E, P, t, h):
    """two paginations of one webentity (internal only / outbound only) advanced in turns: each must still return
    exactly its own unpaginated answer"""
    ref = h.ref
    alive = h.alive()
    if not alive:
        return
    weid, prefix_lrus = alive[E.choose("we", len(alive))]
    prefix_lrus = list(prefix_lrus)
    k = P["ks"][E.choose("k", len(P["ks"]))]
    runs = []
    for inte, outb in ((True, False), (False, True)):
        ok, full = E.call("get_webentity_pagelinks", t.get_webentity_pagelinks, weid, prefix_lrus,
                          include_inbound=False, include_internal=inte, include_outbound=outb)
        runs.append({"inte": inte, "outb": outb, "full": [(E.wrap(a), E.wrap(b), w) for a, b, w in full], "got": [], "token": None, "done": False})
    guard = 0
    while not all(r["done"] for r in runs):
        for r in runs:
            if r["done"]:
                continue
            guard += 1
            E.check(guard <= 40, "pagelinks:terminates", "pagination does not finish")
            ok, ans = E.call("paginate_webentity_pagelinks", t.paginate_webentity_pagelinks, weid, prefix_lrus,
                             include_internal=r["inte"], include_outbound=r["outb"], source_page_count=k,
                             pagination_token=r["token"], _allowed=())
            r["got"].extend((E.wrap(a), E.wrap(b), w) for a, b, w in ans["pagelinks"])
            if ans["done"]:
                r["done"] = True
            else:
                r["token"] = ans["token"]
                E.reach("resumed")
    for r in runs:
        match_triples(E, [[a, b, w] for a, b, w in r["got"]], r["full"], "pagelinks:complete")
    E.observe("interleaved", [[[a, b, w] for a, b, w in r["got"]] for r in runs])


def paginate_check(E, P, t, h, pool, tag, sel):
    ref = h.ref

    def pick(name, n):
        if name not in sel:
            sel[name] = E.choose(name, n)
        return sel[name] % n
    if P.get("subset"):
        # which pages of the webentity bear links is a symbolic choice: none / to a page inside / to a page outside
        pairs = []
        outside = pool[0].prefix(2)       # a page above the webentity's prefixes: belongs to no webentity
        three = P.get("subset") == 3
        for i in range(5):
            c = E.choose("l%d" % i, 3 if three else 2)
            if c == 0:
                continue
            if (three and c == 1) or (not three and i % 2 == 0):
                pairs.append((pool[i], pool[(i + 1) % 5]))
            else:
                pairs.append((pool[i], outside))
        if pairs:
            E.call("add_links", t.add_links, [(a.lru, b.lru) for a, b in pairs], _allowed=())
            for a, b in pairs:
                ref.insert(E, a, False)
                ref.insert(E, b, False)
                ref.add_link(a, b)
    alive = h.alive()
    if not alive:
        return
    weid, prefix_lrus = alive[pick("we", len(alive))]
    prefix_lrus = list(prefix_lrus)
    if len(prefix_lrus) > 1:
        E.reach("two-prefixes")
        if P.get("orders") and len(prefix_lrus) == 3:
            perms = [[0, 1, 2], [2, 1, 0], [1, 0, 2], [0, 2, 1], [1, 2, 0], [2, 0, 1]][:P["orders"]]
            prefix_lrus = [prefix_lrus[j] for j in perms[pick("order", len(perms))]]
        elif pick("reverse", 2):
            prefix_lrus.reverse()
    sw = pick("switches", 3)
    inte, outb = [(True, False), (False, True), (True, True)][sw]
    k = P["ks"][pick("k", len(P["ks"]))]
    ok, full = E.call("get_webentity_pagelinks", t.get_webentity_pagelinks, weid, prefix_lrus,
                      include_inbound=False, include_internal=inte, include_outbound=outb)
    E.check(ok, "pagelinks:refused")
    full = [(E.wrap(a), E.wrap(b), w) for a, b, w in full]
    # model view, for the vacuity guard only
    pages, own = owners(ref)
    for s, d, w in ref.links:
        a = own[page_index(pages, s.lru)]
        b = own[page_index(pages, d.lru)]
        if a == weid and b == weid:
            E.reach("internal")
        if a == weid and b != weid:
            E.reach("outbound")
    bearing = []
    for a, b, w in full:
        if not any(same(a, x) for x in bearing):
            bearing.append(a)
    for lru in prefix_lrus:
        q = ref.known.get(lru)
        under = [pl for pl, o in zip(pages, own) if o == weid and same(ref.resolve(pl)[1].lru, lru)]
        if under and not any(any(same(pl.lru, x) for x in bearing) for pl in under):
            E.reach("linkless-prefix")
        if any(any(same(pl.lru, x) for x in bearing) for pl in under) and not all(any(same(pl.lru, x) for x in bearing) for pl in under):
            E.reach("linkless-page-between")
    got = []
    token = None
    calls = 0
    while True:
        calls += 1
        E.check(calls <= len(bearing) + 3, "pagelinks:terminates", "pagination does not finish")
        ok, ans = E.call("paginate_webentity_pagelinks", t.paginate_webentity_pagelinks, weid, prefix_lrus,
                         include_internal=inte, include_outbound=outb, source_page_count=k, pagination_token=token, _allowed=())
        if token is not None:
            E.check(ok, "pagelinks:resume", "a token issued by the index cannot be resumed")
        part = [(E.wrap(a), E.wrap(b), w) for a, b, w in ans["pagelinks"]]
        srcs = []
        for a, b, w in part:
            if not any(same(a, x) for x in srcs):
                srcs.append(a)
        E.check(ans["count_pagelinks"] == len(part), "pagelinks:counts", "count_pagelinks=%r for %d links" % (ans["count_pagelinks"], len(part)))
        E.check(ans["count_sourcepages"] == len(srcs), "pagelinks:counts", "count_sourcepages=%r, links come from %d pages" % (ans["count_sourcepages"], len(srcs)))
        got.extend(part)
        if ans["done"]:
            E.check(not ans.get("token"), "pagelinks:done-flag", "final answer carries a token")
            break
        E.check(k is not None and len(srcs) == k, "pagelinks:sources-per-answer", "non-final answer covers %d link-bearing source pages, %r requested" % (len(srcs), k))
        E.check(bool(ans.get("token")), "pagelinks:done-flag", "non-final answer has no token")
        token = ans["token"]
        E.reach("resumed")
    match_triples(E, [[a, b, w] for a, b, w in got], full, "pagelinks:complete")
    E.observe(tag + "links", [[a, b, w] for a, b, w in got])
