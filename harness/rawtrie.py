"""Independent reader of the raw trie / link store bytes and the structural
invariants of the ternary search tree (used by C02, C19, C15, C18)."""
from harness.common import same

FLAG_PAGE, FLAG_CRAWLED, FLAG_LINKED, FLAG_DELETED, FLAG_RULE, FLAG_HAS_TAIL, FLAG_IS_TAIL, FLAG_NO_CHILD_WE = range(8)


class RawNode(object):
    __slots__ = ("block", "chars", "flags", "weid", "left", "right", "child", "parent", "out", "inn", "stem", "ntail")

    def bit(self, k):
        return bool((self.flags >> k) & 1)


def parse_trie(E, raw, label="raw"):
    """-> (heads: {block: RawNode with full stem}, nblocks, ntails).  Checks the tail chains."""
    nodemod = E.module("traph.lru_trie.node")
    fmt = nodemod.LRU_TRIE_NODE_FORMAT
    bs = nodemod.LRU_TRIE_NODE_BLOCK_SIZE
    first = nodemod.LRU_TRIE_FIRST_DATA_BLOCK
    E.check(len(raw) % bs == 0, label + ":whole-blocks", "trie store is %d bytes" % len(raw))
    blocks = []
    for b in range(first, len(raw), bs):
        f = E.struct.unpack(fmt, raw[b:b + bs])
        n = RawNode()
        n.block = b
        n.chars, n.flags, n.weid, n.left, n.right, n.child, n.parent, n.out, n.inn = f
        n.chars = E.wrap(n.chars)
        n.stem = None
        n.ntail = 0
        blocks.append(n)
    heads = {}
    cur = None
    expect_tail = False
    ntails = 0
    for n in blocks:
        if n.bit(FLAG_IS_TAIL):
            E.check(expect_tail and cur is not None, label + ":stray-tail",
                    "block %d is flagged as a tail but the previous block announces none" % n.block)
            cur.stem = cur.stem + n.chars
            cur.ntail += 1
            ntails += 1
        else:
            E.check(not expect_tail, label + ":missing-tail", "block before %d announces a tail that is not there" % n.block)
            cur = n
            cur.stem = n.chars
            heads[n.block] = n
        expect_tail = n.bit(FLAG_HAS_TAIL)
    E.check(not expect_tail, label + ":missing-tail", "last block announces a tail that is not there")
    return heads, 1 + len(blocks), ntails


def check_references(E, heads, nblocks, label="raw"):
    """every head block except the root is referenced exactly once (child/left/right), pointers are in range"""
    nodemod = E.module("traph.lru_trie.node")
    first = nodemod.LRU_TRIE_FIRST_DATA_BLOCK
    refs = {}
    for n in heads.values():
        for kind in ("left", "right", "child"):
            p = getattr(n, kind)
            if p:
                E.check(p in heads, label + ":dangling-pointer", "%s pointer of block %d -> %d is not a stem block" % (kind, n.block, p))
                refs[p] = refs.get(p, 0) + 1
    for b in heads:
        want = 0 if b == first else 1
        E.check(refs.get(b, 0) >= want, label + ":unreferenced-block", "block %d is referenced by no pointer" % b)
        E.check(refs.get(b, 0) <= want, label + ":multiply-referenced", "block %d is referenced %d times" % (b, refs.get(b, 0)))


def sibling_trees(heads, first):
    """-> list of (parent_block, root_block) of every sibling BST"""
    out = []
    if first in heads:
        out.append((0, first))
    for n in heads.values():
        if n.child:
            out.append((n.block, n.child))
    return out


def inorder(heads, root):
    out = []
    stack = []
    b = root
    guard = 0
    while stack or b:
        guard += 1
        if guard > 10000:
            raise RuntimeError("cycle in sibling tree")
        while b:
            stack.append(b)
            b = heads[b].left
        b = stack.pop()
        out.append(heads[b])
        b = heads[b].right
    return out


def check_tree(E, heads, label="raw"):
    """parent pointers consistent; every sibling set is a strict BST on full stems; stems are well formed"""
    nodemod = E.module("traph.lru_trie.node")
    first = nodemod.LRU_TRIE_FIRST_DATA_BLOCK
    for parent, root in sibling_trees(heads, first):
        sibs = inorder(heads, root)
        for n in sibs:
            E.check(n.parent == parent, label + ":parent-pointer", "block %d has parent %d, expected %d" % (n.block, n.parent, parent))
        for a, b in zip(sibs, sibs[1:]):
            E.check(a.stem < b.stem, label + ":bst-order", "in-order stems of blocks %d,%d are not strictly increasing" % (a.block, b.block))
    for n in heads.values():
        s = n.stem
        E.check(len(s) >= 1 and same(s[len(s) - 1:], b"|"), label + ":stem-shape", "stem of block %d does not end with the separator" % n.block)
        E.check(not (b"|" in s[:len(s) - 1]), label + ":stem-shape", "stem of block %d contains a separator" % n.block)


def lru_of(heads, block):
    """bottom-up reconstruction from the raw blocks"""
    n = heads[block]
    s = n.stem
    guard = 0
    while n.parent:
        guard += 1
        if guard > 1000:
            raise RuntimeError("cycle in parent chain")
        n = heads[n.parent]
        s = n.stem + s
    return s


def parse_links(E, raw, label="rawlinks"):
    lmod = E.module("traph.link_store.node")
    fmt = lmod.LINK_STORE_NODE_FORMAT
    bs = lmod.LINK_STORE_NODE_BLOCK_SIZE
    E.check(len(raw) % bs == 0, label + ":whole-blocks", "link store is %d bytes" % len(raw))
    stubs = {}
    for b in range(bs, len(raw), bs):
        target, prev = E.struct.unpack(fmt, raw[b:b + bs])
        stubs[b] = (target, prev)
    return stubs
