"""C01 Page set fidelity: no page lost, invented, duplicated or altered."""
from harness.common import plain_pool, concrete_pool, Ref, match_multiset, NEVER
from harness.driver import History

ID = "C01"

FUNCTIONS = ["Traph.add_page", "Traph.add_pages", "Traph.add_links", "Traph.index_batch_crawl",
             "Traph.create_webentity", "Traph.add_webentity_creation_rule", "Traph.pages_iter",
             "Traph.count_pages", "Traph.count_crawled_pages"]


# payload lengths: stem = payload + '|' (73 -> exactly one block, 74 -> one tail byte, 147 -> exactly two blocks ...)
LONG = [[[73], [73, 1], [1]], [[74], [74, 1], [1, 1]], [[1, 147], [1, 100], [2]], [[148], [148, 1], [221]], [[100, 1], [100, 2], [1]]]


# LRUs submitted as str (the API UTF-8-encodes them): ASCII, Latin-1 range, CJK, an astral character
STR_LRUS = [["s:http|", "h:com|"], ["s:http|", "h:com|", "h:caf\u00e9|"], ["s:http|", "h:\u65e5\u672c|", "p:\U0001f600x|"]]


def levels(tier):
    full = ["page", "pages", "links", "batch", "we", "rule"]
    writes = ["page", "links", "batch"]
    if tier == "quick":
        return [
            {"name": "n1-full", "shapes": [[1, 2, 2]], "L": 1, "n": 1, "alphabet": full},
            {"name": "n2-full", "shapes": [[1, 2, 2]], "L": 1, "n": 2, "alphabet": full,
             "links_batch": 1, "batch_targets": 1, "pages_batch": 2},
            {"name": "long-n2", "pools": LONG[:3], "sparse": True, "n": 2, "alphabet": ["page", "links", "batch"],
             "links_batch": 1, "batch_targets": 1},
            {"name": "recrawl3", "shapes": [[1, 2, 2]], "L": 1, "n": 1, "prelude": [["page", 0, True]], "alphabet": ["batch"],
             "batch_sources": 3, "batch_targets": 1, "yield_frequencies": [50, 1]},
            {"name": "clear-n3", "shapes": [[1, 2, 2]], "L": 1, "n": 3, "alphabet": ["clear", "pages", "links"], "links_batch": 1, "pages_batch": 1},
            {"name": "str-lrus", "concrete": STR_LRUS, "as_str": True, "n": 2, "alphabet": ["page", "pages", "links", "batch", "we"],
             "links_batch": 1, "batch_targets": 1},
        ]
    return [
        {"name": "n1-2shapes", "shapes": [[1, 2, 2], [2, 2, 3]], "L": 1, "n": 1, "alphabet": full},
        {"name": "n2-L2", "shapes": [[1, 2, 2]], "L": 2, "n": 2, "alphabet": full, "links_batch": 1, "batch_targets": 1},
        {"name": "long-n3", "pools": LONG[:3], "sparse": True, "n": 3, "alphabet": ["page", "links"], "links_batch": 1},
        {"name": "long-n2-all", "pools": LONG, "sparse": True, "n": 2, "alphabet": full, "links_batch": 1, "batch_targets": 1},
        {"name": "n3-writes", "shapes": [[1, 2, 2]], "L": 1, "n": 3, "alphabet": writes, "links_batch": 1, "batch_targets": 1},
        {"name": "recrawl3-wide", "shapes": [[1, 2, 2]], "L": 1, "n": 1, "prelude": [["page", 0, True]], "alphabet": ["batch", "links"],
         "batch_sources": 3, "batch_targets": 2, "links_batch": 2, "yield_frequencies": [50, 1]},
        {"name": "n2-2shapes", "shapes": [[1, 2, 2], [2, 2, 3]], "L": 1, "n": 2, "alphabet": full},
        {"name": "n3-edits", "shapes": [[1, 2, 2]], "L": 1, "n": 3, "alphabet": ["page", "links", "we", "rule"], "links_batch": 1},
    ]


OUTSIDE = ["more than 3 pool LRUs / 3 write requests", "long stems (74..222 bytes) have symbolic bytes only next to the block boundaries and at both ends (sparse)"]
REQUIRED = ["reach:op:page", "reach:op:links", "reach:op:batch", "pages:count", "report:nb_created_pages"]


def observe_pages(E, t, ref, tag):
    ok, res = E.call("pages_iter", lambda: [(lru, node.is_crawled()) for node, lru in t.pages_iter()])
    E.check(ok, "pages_iter:refused")
    got = [r[0] for r in res]
    exp = ref.page_list()
    idx = match_multiset(E, got, [p.lru for p in exp], "pages")
    ncrawled = 0
    for (lru, crawled), i in zip(res, idx):
        want = ref.pages.v[i][1]
        E.check(bool(crawled) == want, "pages:crawled-mark", "page %d reported crawled=%s, submitted crawled=%s" % (i, crawled, want))
        if want:
            ncrawled += 1
    ok, n = E.call("count_pages", t.count_pages)
    E.check(ok and n == len(exp), "count_pages", "count_pages=%r model=%d" % (n, len(exp)))
    ok, c = E.call("count_crawled_pages", t.count_crawled_pages)
    E.check(ok and c == ncrawled, "count_crawled_pages", "count_crawled_pages=%r model=%d" % (c, ncrawled))
    E.observe(tag + ".pages", [[r[0], bool(r[1])] for r in res])


def harness(E):
    P = E.params
    if "concrete" in P:
        pool = concrete_pool(E, P["concrete"])
    elif "pools" in P:
        L = P["pools"][E.choose("pool", len(P["pools"]))]
        pool = plain_pool(E, [len(x) for x in L], L, sparse=P.get("sparse", False))
    else:
        shape = P["shapes"][E.choose("shape", len(P["shapes"]))]
        pool = plain_pool(E, shape, P.get("L", 1))
    t = E.Traph(folder=None, default_webentity_creation_rule=NEVER, webentity_creation_rules={})
    ref = Ref()
    h = History(E, t, ref, pool, P["alphabet"], P)
    h.prelude(P.get("prelude"))
    if P.get("prelude"):
        observe_pages(E, t, ref, "pre")      # counts are asked before the next request too (count, write, count again)
    for i in range(P["n"]):
        kind, info = h.step(i)
        t = h.t
        rep = info.get("report")
        if rep is not None:
            E.check(rep.nb_created_pages == info["new_pages"], "report:nb_created_pages",
                    "%s reported %r new pages, %d were new" % (kind, rep.nb_created_pages, info["new_pages"]))
        observe_pages(E, t, ref, "s%d" % i)
