"""C06 Automatic webentity creation follows the creation rules exactly."""
from harness.common import typed_pool, Ref, RULES, NEVER, PL, same, rule_prefix, is_stem_prefix
from harness.driver import History
from harness.C04 import battery

ID = "C06"
FUNCTIONS = ["Traph.__add_page", "Traph.__create_webentity", "Traph.__add_prefixes", "Traph.__apply_webentity_creation_rule",
             "Traph.__apply_webentity_default_creation_rule", "Traph.get_potential_prefix", "Traph.add_webentity_creation_rule_iter",
             "LRUTrieWalkHistory.rules_to_apply", "helpers.lru_variations", "Traph.retrieve_prefix"]
REQUIRED = ["created:iff", "created:ids", "created:prefix-set", "potential:value", "potential:no-side-effect", "resolve:prefix",
            "prefix_iter:count", "reach:op:page", "reach:op:rule", "reach:created", "reach:not-created", "reach:anchored-rule-wins",
            "reach:default-rule", "reach:www-variation", "reach:hand-made-webentity", "reach:anchor-is-page"]
OUTSIDE = ["rule patterns outside Hyphe's family (domain, subdomain, path1, path2)",
           "symbolic host payloads containing digits, 'l', 'L' or '[' (symbolic hosts stay off the localhost / IPv4 / IPv6 arms of the patterns; those arms are exercised with the concrete hosts LOCALHOST, [2001:DB8::1], 127.0.0.1 in the special-hosts level)",
           "stem payloads longer than 2 bytes (a payload could then contain a second 's:x' scheme start)",
           "more than 3 pool LRUs, 3 page insertions + 1 rule installation"]
STUBS_EXTRA = ["the oracle's rule semantics is structural (harness.common.rule_prefix), not a regex engine"]


POOLS = {
    "s": [{"special": b"LOCALHOST", "paths": 1}, {"special": b"[2001:DB8::1]", "paths": 2}, {"special": b"127.0.0.1"}],
    "a": [{"hosts": 2, "scheme": None}, {"hosts": 2, "paths": 1}, {"hosts": 3, "paths": 2}],
    "b": [{"hosts": 1, "www": True}, {"hosts": 2, "www": True, "paths": 1}, {"hosts": 3}],
    "c": [{"hosts": 2, "port": True}, {"hosts": 2, "port": True, "paths": 2}, {"hosts": 1}],
}


def levels(tier):
    if tier == "quick":
        return [
            {"name": "pages-n1", "pools": ["a", "b"], "n": 1, "alphabet": ["page"], "defaults": ["domain", "path1"],
             "anchored": [None, (1, 4, "path1"), (0, 3, "subdomain")]},
            {"name": "pages-n2", "pools": ["a"], "n": 2, "alphabet": ["page"], "defaults": ["domain"],
             "anchored": [(1, 4, "path1")]},
            {"name": "handmade", "pools": ["a"], "n": 1, "prelude": [["we", [[0, 3]]]], "alphabet": ["page", "we"],
             "defaults": ["subdomain", "path1"], "anchored": [None, (2, 5, "path1"), (0, 3, "domain")]},
            {"name": "port", "pools": ["c"], "n": 1, "alphabet": ["page"], "defaults": ["domain", "path1"], "anchored": [None, (1, 4, "path1")]},
            {"name": "install", "pools": ["a"], "n": 2, "alphabet": ["page"], "defaults": ["domain"],
             "anchored": [None], "late_rule": [(1, 4, "path1"), (2, 1, "subdomain")]},
            {"name": "special-hosts", "pools": ["s"], "n": 2, "alphabet": ["page"], "defaults": ["domain", "path1"],
             "anchored": [None, (0, 2, "path1"), (1, 2, "path2"), (2, 1, "subdomain")]},
            {"name": "rmrule", "pools": ["a"], "n": 2, "alphabet": ["page", "rmrule"], "defaults": ["domain"], "anchored": [(1, 3, "path1")],
             "tpool": [0, 1]},
            {"name": "reopen", "pools": ["a"], "n": 2, "prelude": [["page", 1, False]], "alphabet": ["page", "delwe", "reopen", "overwrite"], "defaults": ["domain"],
             "anchored": [(1, 3, "path1")], "backend": "file", "overwrite_keeps_rules": True},
            {"name": "recreate", "pools": ["a"], "n": 2, "prelude": [["page", 0, False], ["page", 1, False]], "alphabet": ["delwe", "page"],
             "defaults": ["domain"], "anchored": [(1, 3, "path1")], "tpool": [0, 1]},
            {"name": "deep-anchor", "pools": ["a"], "n": 1, "alphabet": ["page"], "defaults": ["subdomain", "path1"],
             "anchored": [(2, 4, "domain"), (2, 5, "subdomain")]},
        ]
    return [
        {"name": "special-hosts-wide", "pools": ["s"], "n": 2, "alphabet": ["page", "we"], "defaults": ["domain", "subdomain", "path1", "path2"],
         "anchored": [None, (0, 2, "path1"), (1, 2, "path2"), (2, 1, "subdomain"), (1, 3, "path1")]},
        {"name": "pages-n1-all", "pools": ["a", "b", "c"], "n": 1, "alphabet": ["page", "links"], "links_batch": 1,
         "defaults": ["domain", "subdomain", "path1"],
         "anchored": [None, (1, 3, "path1"), (2, 3, "path2"), (2, 1, "subdomain")]},
        {"name": "handmade-wide", "pools": ["a"], "n": 2, "prelude": [["we", [[0, 3]]]], "alphabet": ["page", "we"],
         "defaults": ["subdomain", "domain"], "anchored": [None, (2, 5, "path1"), (0, 3, "domain")]},
        {"name": "L2", "pools": ["a"], "L": 2, "n": 2, "alphabet": ["page"], "defaults": ["domain"], "anchored": [None, (1, 3, "path1")]},
        {"name": "pages-n2-wide", "pools": ["a", "b"], "n": 2, "alphabet": ["page", "we"], "defaults": ["domain", "subdomain"],
         "anchored": [None, (1, 4, "path1")]},
        {"name": "install-wide", "pools": ["a", "b"], "n": 2, "alphabet": ["page"], "defaults": ["domain", "subdomain"],
         "anchored": [None], "late_rule": [(1, 3, "path1"), (1, 4, "path1"), (2, 4, "path2"), (2, 1, "subdomain")]},
        {"name": "reopen-n3", "pools": ["a"], "n": 3, "prelude": [["page", 1, False]], "alphabet": ["page", "delwe", "reopen"], "defaults": ["domain"],
         "anchored": [(1, 3, "path1")], "backend": "file"},
        {"name": "pages-n3", "pools": ["a"], "n": 3, "alphabet": ["page"], "defaults": ["domain"], "anchored": [None, (1, 4, "path1")]},
        {"name": "rmrule-n3", "pools": ["a"], "n": 3, "alphabet": ["page", "rmrule", "rule"], "rule_patterns": ["path1"], "defaults": ["domain"],
         "anchored": [(1, 3, "path1")]},
    ]


def expected_potential(E, ref, pl):
    """model of max(E, K) for an LRU that is not (necessarily) inserted"""
    w, e = ref.resolve(pl)
    elen = len(e.stems) if e is not None else 0
    K = None
    for anchor, rule in ref.rules.items():
        a = ref.known.get(anchor)
        if a is not None and is_stem_prefix(a, pl):
            cand = rule_prefix(pl, rule)
            if cand is not None and (K is None or len(cand.stems) > len(K.stems)):
                K = cand
    if e is not None and (0 if K is None else len(K.stems)) <= elen:
        return e
    if K is not None:
        E.reach("anchored-rule-wins")
        if len(K.stems) == len(pl.stems) and ref.rules.has(pl.lru):
            E.reach("anchor-is-page")
        return K
    E.reach("default-rule")
    return rule_prefix(pl, ref.default_rule)


_T = [None]      # the index under test (set by the harness before each check_created)


def check_created(E, info, label_prefix=""):
    rep = info["report"]
    created = info["created"]
    got = dict(rep.created_webentities)
    E.check(len(got) == len(created), "created:iff", "%d webentities reported created, the rules call for %d" % (len(got), len(created)))
    for weid, valid in created:
        E.reach("created")
        E.check(weid in got, "created:ids", "webentity %d expected, report has %s" % (weid, sorted(got)))
        prefixes = [E.wrap(x) for x in got[weid]]
        E.check(len(prefixes) == len(valid), "created:prefix-set", "webentity %d owns %d prefixes, rules + variations give %d" % (weid, len(prefixes), len(valid)))
        if len(valid) >= 3:
            E.reach("www-variation")
        for x in prefixes:
            ok, owner = E.call("get_webentity_by_prefix", _T[0].get_webentity_by_prefix, x)
            E.check(ok and owner == weid, "created:reachable", "a prefix reported as created cannot be found attached to webentity %d" % weid)
        for v in valid:
            hit = False
            for x in prefixes:
                if same(x, v.lru):
                    hit = True
                    break
            E.check(hit, "created:prefix-set", "a variation of the rule prefix is missing from the created webentity")
    if not created:
        E.reach("not-created")


def snapshot(E, t):
    return E.raw_store(t, "trie"), E.raw_store(t, "links")


def harness(E):
    P = E.params
    pname = P["pools"][E.choose("pool", len(P["pools"]))]
    specs = POOLS[pname]
    if P.get("tpool"):
        specs = [specs[i] for i in P["tpool"]]
    pool = typed_pool(E, specs, L=P.get("L", 1))
    default = P["defaults"][E.choose("default", len(P["defaults"]))]
    anch = P["anchored"][E.choose("anchored", len(P["anchored"]))]
    ref = Ref()
    ref.default_rule = default
    rules = {}
    if anch is not None:
        li, k, rn = anch
        a = pool[li].prefix(min(k, len(pool[li].stems)))
        rules[a.lru] = RULES[rn]
        ref.name(a)
        ref.rules.set(a.lru, rn)
    opts = dict(P)
    folder = None
    if P.get("backend") == "file":
        folder = E.fresh_folder("idx")
        opts["folder"] = folder
    t = E.Traph(folder=folder, default_webentity_creation_rule=RULES[default], webentity_creation_rules=rules)
    h = History(E, t, ref, pool, P["alphabet"], opts)
    if P.get("prelude"):
        h.prelude(P["prelude"])
        if any(x[0] == "we" for x in P["prelude"]):
            E.reach("hand-made-webentity")
    for i in range(P["n"]):
        # potential prefix of every pool LRU (inserted or not), without side effects
        for q in pool:
            want = expected_potential(E, ref, q)
            before = snapshot(E, t)
            t = h.t
            ok, got = E.call("get_potential_prefix", t.get_potential_prefix, q.lru, _allowed=())
            after = snapshot(E, t)
            E.check(E.all(E.eq(before[0], after[0]), E.eq(before[1], after[1])), "potential:no-side-effect", "get_potential_prefix changed a store")
            if want is None:
                E.check(not got, "potential:value", "a potential prefix is returned although no rule proposes one")
            else:
                E.check(bool(got) and same(E.wrap(got), want.lru), "potential:value", "potential prefix is not max(E, K)")
        kind, info = h.step(i)
        t = h.t
        if kind == "we":
            E.reach("hand-made-webentity")
            continue
        if kind in ("delwe", "reopen", "rmrule", "overwrite"):
            continue
        if kind == "rule":
            _T[0] = h.t
            check_created(E, info)
            continue
        _T[0] = h.t
        check_created(E, info)
        for pl in info.get("pages", []):
            w, p = ref.resolve(pl)
            ok, gp = E.call("retrieve_prefix", t.retrieve_prefix, pl.lru)
            E.check(ok == (p is not None) and (not ok or same(E.wrap(gp), p.lru)), "resolve:prefix",
                    "after insertion the page does not resolve to max(E, K)")
    if P.get("late_rule"):
        li, k, rn = P["late_rule"][E.choose("late", len(P["late_rule"]))]
        a = pool[li].prefix(min(k, len(pool[li].stems)))
        E.reach("op:rule")
        ref.created = []
        ok, rep = E.call("add_webentity_creation_rule", t.add_webentity_creation_rule, a.lru, RULES[rn], _allowed=())
        ref.name(a)
        ref.rules.set(a.lru, rn)
        h.install_model(a, rep)
        _T[0] = h.t
        check_created(E, {"report": rep, "created": list(ref.created)})
    z = E.const(b"p:zz|")
    battery(E, h.t, ref, pool, pool[0].extend(z, "P0+z"))
    if folder is not None:
        h.t.close()
