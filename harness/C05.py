"""C05 Webentity page sets partition the pages and agree with resolution."""
from harness.common import typed_pool, Ref, RULES, NEVER, same, match_multiset
from harness.driver import History

ID = "C05"
FUNCTIONS = ["Traph.get_webentity_pages_iter", "Traph.get_webentity_crawled_pages_iter", "Traph.webentity_page_nodes_iter",
             "LRUTrie.webentity_dfs_iter", "Traph.retrieve_webentity", "LRUTrie.lru_node"]
REQUIRED = ["we_pages:count", "we_pages:crawled-mark", "crawled_pages:count", "partition:resolution", "reach:op:page", "reach:op:we",
            "reach:op:addprefix", "reach:nested-excluded", "reach:two-prefixes", "reach:page-without-webentity", "reach:crawled"]
OUTSIDE = ["more than 4 pool LRUs, more than 3 requests"]

POOL = [{"hosts": 2}, {"extend": 0, "paths": 1}, {"extend": 1, "paths": 1}, {"hosts": 2, "paths": 1}]


# path stems of exactly one block (p: + 71 + | = 74 bytes), one byte more, two blocks + 1 (149), with pages after them
LONGPOOLS = [
    [{"hosts": 2}, {"extend": 0, "pathL": [71]}, {"extend": 0, "pathL": [1]}],
    [{"hosts": 2}, {"extend": 0, "pathL": [72]}, {"extend": 1, "pathL": [1]}],
    [{"hosts": 2}, {"extend": 0, "pathL": [146]}, {"extend": 0, "pathL": [146]}],
]


def levels(tier):
    alpha = ["page", "links", "we", "addprefix", "moveprefix", "delwe", "batch"]
    if tier == "quick":
        return [
            {"name": "n2", "n": 2, "alphabet": ["page", "links", "we", "addprefix", "batch"], "links_batch": 1, "batch_targets": 1,
             "defaults": ["domain", "never"], "pool": POOL[:3]},
            {"name": "tpl-n2", "n": 2, "prelude": [["batch", 0, [1, 2, 3]], ["page", 2, True]],
             "alphabet": ["we", "addprefix", "moveprefix", "delwe"], "defaults": ["never"]},
            {"name": "long-n2", "n": 2, "prelude": [["we", [[0, 3]]]], "alphabet": ["page", "links"], "links_batch": 1, "defaults": ["never"],
             "pools": LONGPOOLS},
            {"name": "pages-n2", "n": 2, "alphabet": ["pages", "we", "page"], "pages_batch": 1, "defaults": ["never"], "pool": POOL[:3]},
            {"name": "batch2", "n": 1, "prelude": [["we", [[0, 3]]]], "alphabet": ["batch"], "batch_sources": 2, "batch_targets": 1,
             "defaults": ["never"], "pool": POOL[:3], "yield_frequencies": [50, 1]},
        ]
    return [
        {"name": "long-n3", "n": 3, "prelude": [["we", [[0, 3]]]], "alphabet": ["page", "links", "we"], "links_batch": 1, "defaults": ["never", "domain"],
         "pools": LONGPOOLS + [[{"hosts": 2}, {"extend": 0, "pathL": [220]}, {"extend": 0, "pathL": [1, 71]}]]},
        {"name": "n2-wide", "n": 2, "alphabet": alpha + ["rule"], "links_batch": 1, "batch_targets": 1, "defaults": ["domain", "never"], "rule_patterns": ["path1"]},
        {"name": "n3", "n": 3, "alphabet": ["page", "we", "addprefix", "batch"], "batch_targets": 1, "defaults": ["never"], "pool": POOL[:3]},
        {"name": "tpl-n3", "n": 3, "prelude": [["batch", 0, [1, 2, 3]], ["page", 2, True]], "alphabet": ["we", "addprefix", "moveprefix", "delwe"], "defaults": ["never"]},
    ]


def battery(E, t, h):
    ref = h.ref
    pages = ref.page_list()
    owner = []
    for pl in pages:
        w, p = ref.resolve(pl)
        owner.append(w)
        if w is None:
            E.reach("page-without-webentity")
        ok, got = E.call("retrieve_webentity", t.retrieve_webentity, pl.lru)
        E.check(ok == (w is not None) and (not ok or got == w), "partition:resolution",
                "page %s resolves to %r, model %r" % (pl.name, got if ok else None, w))
    listed = 0
    for weid, prefix_lrus in h.alive():
        mine = [pl for pl, w in zip(pages, owner) if w == weid]
        if len(prefix_lrus) > 1:
            E.reach("two-prefixes")
        # a page under one of W's prefixes that belongs to a nested webentity must be excluded
        for pl, w in zip(pages, owner):
            if w != weid:
                for lru in prefix_lrus:
                    q = ref.known.get(lru)
                    if len(q.stems) <= len(pl.stems) and same(pl.prefix(len(q.stems)).lru, lru):
                        E.reach("nested-excluded")
        orders = [list(prefix_lrus)]
        if len(prefix_lrus) > 1:
            orders.append(list(reversed(prefix_lrus)))
        for order in orders:
            ok, got = E.call("get_webentity_pages", t.get_webentity_pages, weid, order)
            E.check(ok, "we_pages:refused", "get_webentity_pages refused the webentity's own prefix list")
            idx = match_multiset(E, [g["lru"] for g in got], [pl.lru for pl in mine], "we_pages")
            for g, i in zip(got, idx):
                want = ref.crawled(mine[i].lru)
                if want:
                    E.reach("crawled")
                E.check(bool(g["crawled"]) == want, "we_pages:crawled-mark", "page listed with crawled=%r, model %r" % (g["crawled"], want))
            ok, gotc = E.call("get_webentity_crawled_pages", t.get_webentity_crawled_pages, weid, order)
            E.check(ok, "we_pages:refused")
            minec = [pl for pl in mine if ref.crawled(pl.lru)]
            match_multiset(E, [g["lru"] for g in gotc], [pl.lru for pl in minec], "crawled_pages")
            for g in gotc:
                E.check(g["crawled"] is True, "we_pages:crawled-mark", "crawled-only answer lists a page with crawled=%r" % (g["crawled"],))
        listed += len(mine)
        E.observe("pages%d" % weid, [[g["lru"], g["crawled"]] for g in got])
    E.check(listed == len([w for w in owner if w is not None]), "partition:union", "webentity page sets do not cover the pages that resolve")


def harness(E):
    P = E.params
    if P.get("pools"):
        pool = typed_pool(E, P["pools"][E.choose("pool", len(P["pools"]))], L=1)
    else:
        pool = typed_pool(E, P.get("pool", POOL), L=1)
    default = P["defaults"][E.choose("default", len(P["defaults"]))]
    ref = Ref()
    ref.default_rule = None if default == "never" else default
    t = E.Traph(folder=None, default_webentity_creation_rule=NEVER if default == "never" else RULES[default], webentity_creation_rules={})
    h = History(E, t, ref, pool, P["alphabet"], P)
    h.prelude(P.get("prelude"))
    for i in range(P["n"]):
        if i > 0 or P.get("prelude"):
            battery(E, t, h)       # query, write, query again
        h.step(i)
    battery(E, t, h)
