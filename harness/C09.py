"""C09 Page pagination is complete, duplicate-free, ordered and resumable."""
from harness.netstate import build, owners, page_index, POOL4, POOL5
from harness.common import same, PL

ID = "C09"
FUNCTIONS = ["Traph.paginate_webentity_pages", "LRUTrie.webentity_inorder_iter", "helpers.build_pagination_token",
             "helpers.parse_pagination_token", "helpers.int_to_base64", "helpers.base64_to_int", "helpers.int_to_base4",
             "helpers.base4_append", "Traph.get_webentity_pages"]
REQUIRED = ["paginate:complete", "paginate:order", "paginate:page-size", "paginate:done-flag", "paginate:counts",
            "paginate:no-repeat", "paginate:no-skip", "codec:roundtrip", "codec:path-digits", "reach:two-prefixes", "reach:crawled-only",
            "reach:insertion-between-calls", "reach:resumed", "reach:nested-foreign", "reach:k-exact-multiple"]
OUTSIDE = ["more than 5 pages / 3 prefixes; token paths of more than 12 base-64 digits (tries deeper/wider than 36 left/child/right moves)",
           "one insertion between calls (any position)"]

TPL = [["batch", 0, [1, 2, 3]], ["page", 2, True], ["page", 4, False], ["we", [[0, 3]]]]
# two prefixes with two pages each, crawled marks symbolic (crawled-only pagination across a prefix boundary)
MARKS_POOL = [{"hosts": 2}, {"extend": 0, "paths": 1}, {"extend": 0, "paths": 1}, {"hosts": 2}, {"extend": 3, "paths": 1}, {"extend": 3, "paths": 1}]
# pages whose stems span two and three blocks (p: + 72 + | = 75 bytes, p: + 146 + | = 149), one of them below a long stem
LONG_POOL = [{"hosts": 2}, {"extend": 0, "pathL": [72]}, {"extend": 1, "pathL": [1]}, {"extend": 0, "pathL": [146]}]
# pages three stems below the prefix on two branches (token paths of four and more moves)
DEEP_POOL = [{"hosts": 2}, {"extend": 0, "paths": 2}, {"extend": 1, "paths": 1}, {"extend": 1, "paths": 1}, {"extend": 0, "paths": 3}]


def levels(tier):
    if tier == "quick":
        return [
            {"name": "codec", "mode": "codec", "digits": [1, 2, 3, 6], "prefix_indices": [0, 3, 10, 12, 64]},
            {"name": "path", "mode": "path", "moves": [1, 5, 16, 31, 32, 33, 40]},
            {"name": "tpl-n1", "mode": "pages", "n": 1, "prelude": TPL, "alphabet": ["we", "addprefix", "page"], "defaults": ["never"],
             "pool": POOL5, "ks": [1, 2, 3, 6], "insert": False},
            {"name": "insert", "mode": "pages", "n": 0, "prelude": TPL + [["we", [[3, 3]]]], "alphabet": ["page"], "defaults": ["never"],
             "pool": POOL5, "ks": [1, 2], "insert": True},
            {"name": "marks", "mode": "pages", "n": 0, "prelude": [["we", [[0, 3], [3, 3]]]], "flag_pages": [1, 2, 4, 5], "alphabet": ["page"],
             "defaults": ["never"], "pool": MARKS_POOL, "ks": [1, 2], "insert": False},
            {"name": "deep", "mode": "pages", "n": 0, "prelude": [["we", [[0, 3]]], ["page", 2, False], ["page", 3, True], ["page", 4, False]],
             "alphabet": ["page"], "defaults": ["never"], "pool": DEEP_POOL, "ks": [1, 2, 3], "insert": False},
            {"name": "long", "mode": "pages", "n": 0, "prelude": [["we", [[0, 3]]], ["page", 1, False], ["page", 2, True], ["page", 3, False]],
             "alphabet": ["page"], "defaults": ["never"], "pool": LONG_POOL, "ks": [1, 2], "insert": False},
        ]
    return [
        {"name": "codec-wide", "mode": "codec", "digits": [1, 2, 3, 4, 6, 8, 12], "prefix_indices": [0, 1, 9, 10, 123]},
        {"name": "path-wide", "mode": "path", "moves": [1, 2, 3, 5, 8, 16, 24, 31, 32, 33, 36, 40, 48, 64]},
        {"name": "deep-n1", "mode": "pages", "n": 1, "prelude": [["we", [[0, 3]]], ["page", 2, False], ["page", 3, True], ["page", 4, False]],
         "alphabet": ["page", "we"], "defaults": ["never"], "pool": DEEP_POOL, "ks": [1, 2, 3, 4], "insert": True},
        {"name": "marks-insert", "mode": "pages", "n": 0, "prelude": [["we", [[0, 3], [3, 3]]]], "flag_pages": [1, 2, 4, 5], "alphabet": ["page"],
         "defaults": ["never"], "pool": MARKS_POOL, "ks": [1, 2, 3], "insert": True},
        {"name": "tpl-n2", "mode": "pages", "n": 2, "prelude": TPL, "alphabet": ["we", "addprefix", "page"], "defaults": ["never"],
         "pool": POOL5, "ks": [1, 2, None], "insert": False},
        {"name": "n3", "mode": "pages", "n": 3, "alphabet": ["page", "we", "addprefix"], "defaults": ["never"],
         "pool": [POOL4[0], POOL4[1], POOL4[3]], "ks": [1, 2], "insert": False},
    ]


def codec(E, P):
    """tokens round-trip through their text encoding for every (prefix index, path)"""
    h = E.module("traph.helpers")
    d = P["digits"][E.choose("digits", len(P["digits"]))]
    i = P["prefix_indices"][E.choose("i", len(P["prefix_indices"]))]
    lo = 0 if d == 1 else 64 ** (d - 1)
    path = E.int("path", lo, 64 ** d - 1, bv=6 * d + 8)
    ok, tok = E.call("build_pagination_token", h.build_pagination_token, i, path, _allowed=())
    ok, back = E.call("parse_pagination_token", h.parse_pagination_token, tok, _allowed=())
    E.check(back[0] == i, "codec:roundtrip", "prefix index %r came back as %r" % (i, back[0]))
    E.check(back[1] == path, "codec:roundtrip", "a path does not survive build/parse of the token")
    E.observe("token", tok)


def path_codec(E, P):
    """the path integer is built move by move (1 left, 2 child, 3 right) and read back digit by digit:
    for every sequence of k moves, int_to_base4(fold(base4_append)) spells the moves"""
    h = E.module("traph.helpers")
    k = P["moves"][E.choose("moves", len(P["moves"]))]
    W = 2 * k + 10
    ops = [E.int("m%d" % i, 1, 3, bv=W) for i in range(k)]
    p = 0
    for op in ops:
        ok, p = E.call("base4_append", h.base4_append, p, op, _allowed=())
    ok, text = E.call("int_to_base4", h.int_to_base4, p, _allowed=())
    E.check(len(text) == k, "codec:path-digits", "%d moves are spelled with %d digits" % (k, len(text)))
    for i, op in enumerate(ops):
        d = text[i:i + 1]
        E.check(E.all(E.implies(op == 1, d == "1"), E.implies(op == 2, d == "2"), E.implies(op == 3, d == "3")),
                "codec:path-digits", "move %d is not read back from the path integer" % i)
    E.observe("path", text)


def model_pages(E, ref, weid, prefix_lrus, crawled_only):
    """pages of the webentity prefix by prefix (the prefix a page is listed under is its longest attached stem-prefix)"""
    pages, own = owners(ref)
    out = []
    for lru in prefix_lrus:
        grp = []
        for pl in pages:
            w, p = ref.resolve(pl)
            if w == weid and same(p.lru, lru):
                if crawled_only and not ref.crawled(pl.lru):
                    continue
                grp.append(pl)
        out.append(grp)
    return out


def pages_mode(E, P):
    t, h, pool = build(E, P)
    ref = h.ref
    for i in P.get("flag_pages", []):
        crawled = E.flag("mark%d" % i)
        E.call("add_page", t.add_page, pool[i].lru, crawled=crawled, _allowed=())
        ref.insert(E, pool[i], crawled)
    alive = h.alive()
    if not alive:
        return
    weid, prefix_lrus = alive[E.choose("we", len(alive))]
    if len(alive) > 1:
        E.reach("nested-foreign")
    prefix_lrus = list(prefix_lrus)
    if len(prefix_lrus) > 1:
        E.reach("two-prefixes")
        if E.flag("reverse"):
            prefix_lrus.reverse()
    crawled_only = E.flag("crawled_only")
    if crawled_only:
        E.reach("crawled-only")
    k = P["ks"][E.choose("k", len(P["ks"]))]
    before = model_pages(E, ref, weid, prefix_lrus, crawled_only)
    total = sum(len(g) for g in before)
    if total and k and total % k == 0:
        E.reach("k-exact-multiple")
    # optional insertion of a fresh page under the webentity between two calls
    insert_after = E.choose("insert_after", 3) if P.get("insert") else 0     # 0: never, j: after the j-th call
    seen = []
    token = None
    calls = 0
    inserted = None
    while True:
        calls += 1
        E.check(calls <= total + 3, "paginate:terminates", "pagination does not finish")
        ok, ans = E.call("paginate_webentity_pages", t.paginate_webentity_pages, weid, prefix_lrus, page_count=k,
                         pagination_token=token, crawled_only=crawled_only)
        E.check(ok, "paginate:refused", "a token issued by the index was refused")
        got = ans["pages"]
        E.check(ans["count"] == len(got), "paginate:counts", "count=%r for %d pages" % (ans["count"], len(got)))
        E.check(ans["count_crawled"] == len([g for g in got if g["crawled"]]), "paginate:counts", "count_crawled disagrees with the pages returned")
        for g in got:
            seen.append((E.wrap(g["lru"]), g["crawled"]))
        if ans["done"]:
            E.check("token" not in ans or not ans.get("token"), "paginate:done-flag", "final answer carries a token")
            break
        E.check(k is not None and len(got) == k, "paginate:page-size", "non-final answer holds %d pages, %r requested" % (len(got), k))
        E.check(bool(ans.get("token")), "paginate:done-flag", "non-final answer has no token")
        token = ans["token"]
        E.reach("resumed")
        if insert_after == calls and inserted is None:
            E.reach("insertion-between-calls")
            base = ref.known.get(prefix_lrus[E.choose("ins.prefix", len(prefix_lrus))])
            z = E.const(b"p:") + E.bytes("z", 1) + E.const(b"|")
            where = E.choose("ins.where", 2)
            if where == 1 and before[0]:
                base = before[0][E.choose("ins.under", len(before[0]))]
            inserted = base.extend(z, "ins")
            if ref.pages.has(inserted.lru):
                E.assume(False)      # an insertion is a page that was not there before
            crawled = E.flag("ins.crawled")
            E.call("add_page", t.add_page, inserted.lru, crawled=crawled, _allowed=())
            ref.insert(E, inserted, crawled)
    # every page present throughout is listed exactly once, in order
    flat = [pl for g in before for pl in g]
    if inserted is None:
        E.check(len(seen) == len(flat), "paginate:complete", "%d pages listed, the webentity has %d" % (len(seen), len(flat)))
    pos = 0
    listed = [False] * len(flat)
    for lru, crawled in seen:
        i = -1
        for j, pl in enumerate(flat):
            if same(pl.lru, lru):
                i = j
                break
        if i < 0:
            E.check(inserted is not None and same(inserted.lru, lru), "paginate:complete", "a listed page is not a page of the webentity")
            continue
        E.check(not listed[i], "paginate:no-repeat", "a page is listed twice")
        listed[i] = True
        E.check(bool(crawled) == ref.crawled(lru), "paginate:counts", "crawled mark of a listed page is wrong")
    E.check(all(listed), "paginate:no-skip", "a page that was in the webentity throughout is skipped")
    # order: prefix by prefix in the given order, ascending within a prefix
    group_of = []
    for lru, _ in seen:
        gi = -1
        for a, g in enumerate(before):
            for pl in g:
                if same(pl.lru, lru):
                    gi = a
        if gi < 0 and inserted is not None:
            after = model_pages(E, ref, weid, prefix_lrus, crawled_only)
            for a, g in enumerate(after):
                for pl in g:
                    if same(pl.lru, lru):
                        gi = a
        group_of.append(gi)
    for a in range(len(seen) - 1):
        E.check(group_of[a] <= group_of[a + 1], "paginate:order", "pages are not listed prefix by prefix in the given order")
        if group_of[a] == group_of[a + 1]:
            E.check(seen[a][0] < seen[a + 1][0], "paginate:order", "pages of one prefix are not in ascending LRU order")
    # the unpaginated query is the same set
    if inserted is None and not crawled_only:
        ok, allp = E.call("get_webentity_pages", t.get_webentity_pages, weid, prefix_lrus)
        E.check(ok and len(allp) == len(seen), "paginate:complete", "paginated and unpaginated answers differ in size")
    E.observe("pages", [[l, c] for l, c in seen])


def harness(E):
    P = E.params
    if P["mode"] == "codec":
        return codec(E, P)
    if P["mode"] == "path":
        return path_codec(E, P)
    return pages_mode(E, P)
