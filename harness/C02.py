"""C02 Stored LRUs stay findable and read back byte-identical, any stem length."""
from harness.common import plain_pool, concrete_pool, Ref, NEVER, PL, same, match_multiset
from harness.driver import History
from harness import rawtrie
from harness.C19 import open_index

ID = "C02"
FUNCTIONS = ["LRUTrie.add_lru", "LRUTrie.__ensure_stem_from_siblings", "LRUTrie.lru_node", "LRUTrie.windup_lru",
             "LRUTrie.dfs_iter", "LRUTrieNode.read", "LRUTrieNode.write", "LRUTrieNode.set_stem", "LRUTrieNode.stem"]
REQUIRED = ["lookup:locatable", "lookup:windup", "dfs:count", "raw:bst-order", "raw:parent-pointer", "raw:unreferenced-block",
            "reach:absent-prefix", "reach:long-stem", "reach:op:page", "reach:op:links", "reach:op:we", "reach:op:rule"]
OUTSIDE = ["long stems in the `sparse` levels have symbolic bytes only next to the 74-byte block boundaries and at both ends; the other bytes are a concrete position-dependent filler (fully symbolic long stems: thorough level long-full-n1)",
           "stems longer than 297 bytes", "more than 4 pool LRUs / 3 write requests", "LRUs of more than 3 stems"]


# LRUs submitted as str: composed and decomposed accents, a compatibility character, CJK, an astral character
STR_LRUS = [["s:http|", "h:caf\u00e9|"], ["s:http|", "h:cafe\u0301|", "p:\u212b|"], ["s:http|", "h:\u65e5\u672c|", "p:\U0001f600x|"]]


def levels(tier):
    alpha = ["page", "links", "we", "rule"]
    short = [[1], [1, 1], [1, 1]]
    short3 = [[1, 1], [1, 1, 1], [1, 1, 1]]
    longs = [[[74], [74, 1], [1]], [[73], [147], [1, 148]], [[1, 100], [1, 100], [2]],
             [[221], [1, 222], [74, 74]], [[148], [148], [148, 74]], [[75, 1], [75, 146], [2]]]
    if tier == "quick":
        return [
            {"name": "short-n1", "pools": [short], "absent": [1, 1], "n": 1, "alphabet": alpha, "backends": ["memory", "file"], "links_batch": 2},
            {"name": "short-n2", "pools": [short], "absent": [1], "n": 2, "alphabet": ["page", "links", "we"], "backends": ["memory"], "links_batch": 1},
            {"name": "long-n1", "pools": longs[:3] + [[[221], [1], [295, 1]], [[1, 148, 1], [1, 148], [2, 75, 1]]], "sparse": True, "absent": [74], "n": 1, "alphabet": ["page", "links", "we"],
             "backends": ["file"], "links_batch": 2},
            {"name": "long-mem-n1", "pools": [longs[0], [[1, 148, 1], [1, 148], [2, 75, 1]]], "sparse": True, "absent": [74], "n": 1,
             "alphabet": ["page", "links"], "backends": ["memory"], "links_batch": 2},
            {"name": "mixed-n1", "pools": [[[1], [2, 1], [1, 2]], [[2], [1, 1], [2, 2]]], "absent": [2], "n": 1, "alphabet": alpha,
             "backends": ["memory"], "links_batch": 2},
            {"name": "clear-n1", "pools": [short], "absent": [1], "n": 1, "prelude": [["links", [[0, 1]]], ["clear"]], "alphabet": ["page", "links"],
             "backends": ["file", "memory"], "links_batch": 1},
            {"name": "str-lrus", "concrete": STR_LRUS, "concrete_absent": ["s:http|", "h:cafe|"], "as_str": True, "n": 2,
             "alphabet": ["page", "links", "we"], "backends": ["memory", "file"], "links_batch": 1},
        ]
    return [
        {"name": "short-n1", "pools": [short, short3], "absent": [1, 1], "n": 1, "alphabet": alpha, "backends": ["memory", "file"], "links_batch": 2},
        {"name": "short-n2", "pools": [short], "absent": [1], "n": 2, "alphabet": alpha, "backends": ["memory"], "links_batch": 1},
        {"name": "short-L2", "pools": [short], "L2": True, "absent": [2], "n": 2, "alphabet": ["page", "links", "we"], "backends": ["memory"], "links_batch": 1},
        {"name": "long-n1", "pools": longs, "sparse": True, "absent": [74, 1], "n": 1, "alphabet": alpha, "backends": ["file", "memory"], "links_batch": 2},
        {"name": "long-n2", "pools": longs, "sparse": True, "absent": [74], "n": 2, "alphabet": alpha, "backends": ["file", "memory"], "links_batch": 1},
        {"name": "long-full-n1", "pools": longs[:2], "sparse": False, "absent": [74], "n": 1, "alphabet": ["page", "links"], "backends": ["file"], "links_batch": 1},
        {"name": "mixed-n2", "pools": [[[1], [2, 1], [1, 2]], [[2], [1, 1], [2, 2]], [[3], [1, 3], [2, 1]]], "absent": [2], "n": 2,
         "alphabet": ["page", "links", "we"], "backends": ["memory"], "links_batch": 1},
        {"name": "short-n3", "pools": [short], "absent": [1], "n": 3, "alphabet": ["page", "links", "we"], "backends": ["memory"], "links_batch": 1},
    ]


def battery(E, t, ref, queries):
    trie = t.lru_trie
    # read-only requests about the queried LRUs come first: they name nothing
    for q in queries:
        for fn in (t.get_potential_prefix, t.retrieve_webentity, t.retrieve_prefix, t.get_page_links):
            try:
                fn(q.lru)
            except E.TraphException:
                pass
    # top-down lookup + bottom-up reconstruction
    for q in queries:
        known = ref.known.has(q.lru)
        if not known:
            E.reach("absent-prefix")
        ok, node = E.call("lru_node", trie.lru_node, q.lru, _allowed=())
        E.check((node is not None) == known, "lookup:locatable",
                "%s: located=%s, named in a write=%s" % (q.name, node is not None, known))
        if node is not None:
            ok, back = E.call("windup_lru", trie.windup_lru, node.block, _allowed=())
            E.check(same(E.wrap(back), q.lru), "lookup:windup", "bottom-up reconstruction of %s differs from the submitted bytes" % q.name)
    # full traversal
    ok, allnodes = E.call("dfs_iter", lambda: [(node.block, lru) for node, lru in trie.dfs_iter()], _allowed=())
    idx = match_multiset(E, [x[1] for x in allnodes], list(ref.known.k), "dfs")
    # raw structure
    raw = E.raw_store(t, "trie")
    heads, nblocks, ntails = rawtrie.parse_trie(E, raw)
    if ntails:
        E.reach("long-stem")
    rawtrie.check_references(E, heads, nblocks)
    rawtrie.check_tree(E, heads)
    for block, lru in allnodes:
        E.check(block in heads and same(rawtrie.lru_of(heads, block), E.wrap(lru)), "dfs:raw-agree",
                "traversal and raw blocks disagree on the LRU of block %d" % block)
    E.observe("dfs", [x[1] for x in allnodes])


def harness(E):
    P = E.params
    if "concrete" in P:
        pool = concrete_pool(E, P["concrete"])
        absent = concrete_pool(E, [P["concrete_absent"]], tag="x")[0]
    else:
        L = P["pools"][E.choose("pool", len(P["pools"]))]
        if P.get("L2"):
            L = [[2 for _ in x] for x in L]
        shape = [len(x) for x in L]
        pool = plain_pool(E, shape, L, sparse=P.get("sparse", False))
        absent = plain_pool(E, [len(P["absent"])], [P["absent"]], tag="x", sparse=P.get("sparse", False))[0]
    backend = P["backends"][E.choose("backend", len(P["backends"]))]
    t = open_index(E, backend, default_webentity_creation_rule=NEVER, webentity_creation_rules={})
    ref = Ref()
    h = History(E, t, ref, pool, P["alphabet"], P)
    h.prelude(P.get("prelude"))
    for i in range(P["n"]):
        h.step(i)
    queries = []
    for pl in pool + [absent]:
        queries.extend(pl.prefixes())
    battery(E, t, ref, queries)
    if backend != "memory":
        t.close()
