"""C13 Webentity hierarchy queries are exact; pruning never hides a child."""
from harness.common import typed_pool, Ref, RULES, NEVER, same, same_pl, is_stem_prefix
from harness.driver import History

ID = "C13"
FUNCTIONS = ["Traph.get_webentity_child_webentities_iter", "Traph.get_webentity_parent_webentities", "LRUTrie.dfs_iter",
             "LRUTrie.node_parents_iter", "LRUTrie.add_lru", "LRUTrieNode.flag_can_have_child_webentities",
             "Traph.add_prefix_to_webentity", "Traph.move_prefix_to_webentity", "Traph.__add_prefixes"]
REQUIRED = ["children", "parents", "reach:op:page", "reach:op:links", "reach:op:we", "reach:op:addprefix", "reach:op:moveprefix",
            "reach:op:rule", "reach:has-child", "reach:has-parent", "reach:child-depth2", "reach:unmarked-path-first"]
OUTSIDE = ["more than 4 pool LRUs, depth more than 5 stems, more than 4 requests"]

POOL = [{"hosts": 2}, {"extend": 0, "paths": 1}, {"extend": 1, "paths": 1}, {"hosts": 2, "paths": 1}]
# three sibling path stems under one domain (every 3-node BST shape arises from the symbolic byte order), one of them deeper
WIDE = [{"hosts": 2}, {"extend": 0, "paths": 1}, {"extend": 0, "paths": 1}, {"extend": 0, "paths": 1}, {"extend": 3, "paths": 1}]


def levels(tier):
    alpha = ["page", "links", "we", "addprefix", "moveprefix", "rule", "delwe"]
    if tier == "quick":
        return [
            {"name": "n2", "n": 2, "alphabet": alpha, "links_batch": 1, "rule_patterns": ["path1"], "defaults": ["domain", "never"],
             "pool": POOL[:3]},
            {"name": "n3", "n": 3, "alphabet": ["page", "we", "addprefix"], "defaults": ["never"], "pool": POOL[:3]},
            {"name": "tpl-n2", "n": 2, "prelude": [["links", [[2, 3], [3, 1]]]], "alphabet": ["we", "addprefix", "moveprefix", "rule"],
             "rule_patterns": ["path1"], "defaults": ["never"]},
            {"name": "wide-n2", "n": 2, "prelude": [["page", 1, False], ["we", [[0, 3]]], ["page", 2, False]], "alphabet": ["we", "addprefix", "page"],
             "defaults": ["never"], "pool": WIDE},
            {"name": "clear-n2", "n": 2, "prelude": [["we", [[0, 3]]], ["we", [[1, 4]]], ["clear"]], "alphabet": ["we", "addprefix"],
             "defaults": ["never"], "pool": POOL[:2]},
            {"name": "schemes-n1", "n": 1, "prelude": [["we", [[0, 1]]], ["we", [[1, 3]]]], "alphabet": ["we", "page", "addprefix"],
             "defaults": ["never"], "pool": [{"hosts": 2}, {"hosts": 2, "scheme": "https"}, {"extend": 0, "paths": 1}]},
            {"name": "chain-n1", "n": 1, "prelude": [["we", [[0, 1]]], ["we", [[0, 2], [0, 3]]]], "alphabet": ["we", "addprefix", "page"],
             "defaults": ["never"], "pool": POOL[:3]},
        ]
    return [
        {"name": "chain-n2", "n": 2, "prelude": [["we", [[0, 1]]], ["we", [[0, 2], [0, 3]]]], "alphabet": ["we", "addprefix", "page", "moveprefix", "delwe"],
         "defaults": ["never"], "pool": POOL},
        {"name": "n2-wide", "n": 2, "alphabet": alpha, "links_batch": 1, "rule_patterns": ["path1"], "defaults": ["domain", "never"]},
        {"name": "wide-n3", "n": 3, "prelude": [["page", 1, False], ["we", [[0, 3]]], ["page", 2, False]], "alphabet": ["we", "addprefix", "page"],
         "defaults": ["never"], "pool": WIDE},
        {"name": "n4", "n": 4, "alphabet": ["page", "we", "addprefix", "moveprefix"], "defaults": ["never"], "pool": POOL[:3]},
        {"name": "n3-wide", "n": 3, "alphabet": ["page", "we", "addprefix", "moveprefix", "delwe"], "defaults": ["never"]},
    ]


def expected(E, ref, weid, prefix_lrus):
    parents = set()
    children = set()
    for lru in prefix_lrus:
        p = ref.known.get(lru)
        for olru, w in ref.prefixes.items():
            if w == weid:
                continue
            q = ref.known.get(olru)
            if len(q.stems) < len(p.stems) and is_stem_prefix(q, p):
                parents.add(w)
            if len(p.stems) < len(q.stems) and is_stem_prefix(p, q):
                children.add(w)
                if len(q.stems) - len(p.stems) >= 2:
                    E.reach("child-depth2")
    return parents, children


def battery(E, t, h):
    ref = h.ref
    for weid, prefix_lrus in h.alive():
        parents, children = expected(E, ref, weid, prefix_lrus)
        if children:
            E.reach("has-child")
        if parents:
            E.reach("has-parent")
        ok, got = E.call("get_webentity_child_webentities", t.get_webentity_child_webentities, weid, list(prefix_lrus))
        E.check(ok and sorted(got) == sorted(children), "children",
                "children of %d: %s, model %s" % (weid, sorted(got) if ok else got, sorted(children)))
        ok, got = E.call("get_webentity_parent_webentities", t.get_webentity_parent_webentities, weid, list(prefix_lrus))
        E.check(ok and sorted(got) == sorted(parents), "parents",
                "parents of %d: %s, model %s" % (weid, sorted(got) if ok else got, sorted(parents)))
        E.observe("h%d" % weid, [sorted(children), sorted(parents)])


def harness(E):
    P = E.params
    pool = typed_pool(E, P.get("pool", POOL), L=1)
    default = P["defaults"][E.choose("default", len(P["defaults"]))]
    ref = Ref()
    ref.default_rule = None if default == "never" else default
    t = E.Traph(folder=None, default_webentity_creation_rule=NEVER if default == "never" else RULES[default], webentity_creation_rules={})
    h = History(E, t, ref, pool, P["alphabet"], P)
    h.prelude(P.get("prelude"))
    first_kind = "links" if P.get("prelude") else None
    for i in range(P["n"]):
        if i > 0 or P.get("prelude"):
            battery(E, t, h)       # query, write, query again
        kind, info = h.step(i)
        if i == 0 and first_kind is None:
            first_kind = kind
        if first_kind in ("page", "links") and kind in ("we", "addprefix", "rule") and default == "never":
            E.reach("unmarked-path-first")
    battery(E, t, h)
