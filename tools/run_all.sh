#!/bin/bash
# runs every check of a tier sequentially; prints id, exit code, wall time, last summary line
tier=${1:-quick}
cd "$(dirname "$0")/.."
shift
ids=${@:-$(seq -w 1 20 | sed 's/^/C/')}
for id in $ids; do
  s=$(date +%s)
  out=$(python3-vt -m symx.check $id --tier $tier 2>&1)
  rc=$?
  e=$(date +%s)
  echo "$id rc=$rc $((e-s))s $(echo "$out" | tail -1 | cut -c1-220)"
  echo "$out" | grep -E "level |VIOLATION|ENGINE-ERROR|vacuity|NOT reproduce|mismatch|INCONCLUSIVE" | head -12
done
