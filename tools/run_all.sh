#!/bin/bash
# runs every check of a tier sequentially; prints id, exit code, wall time, last summary line
tier=${1:-quick}
cd /verif
for i in $(seq -w 1 20); do
  id=C$i
  s=$(date +%s)
  out=$(python3-vt -m symx.check $id --tier $tier 2>&1)
  rc=$?
  e=$(date +%s)
  echo "$id rc=$rc $((e-s))s $(echo "$out" | tail -1 | cut -c1-200)"
  echo "$out" | grep -E "VIOLATION|ENGINE-ERROR|vacuity|NOT reproduce|mismatch|PARTIAL|INCONCLUSIVE" | head -5
done
