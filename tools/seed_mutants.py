#!/usr/bin/env python3
"""Confirms each sub-agent change (suite passes, demo fails with it and passes without) in a scratch worktree,
runs the property's check against it and stores it under /verif/seeded/<prop>-<k>/ with meta.json.
usage: seed_mutants.py <src-dir with Cxx/patchK.diff, demoK.py, noteK.txt> [Cxx ...]"""
import json
import os
import re
import shutil
import subprocess
import sys

HERE = os.path.dirname(os.path.dirname(os.path.abspath(__file__)))


def sh(cmd, cwd=None, env=None, timeout=3600):
    p = subprocess.run(cmd, cwd=cwd, env=env, shell=isinstance(cmd, str), capture_output=True, text=True, timeout=timeout)
    return p.returncode, (p.stdout or "") + (p.stderr or "")


def main():
    src = sys.argv[1]
    props = sys.argv[2:] or sorted(d for d in os.listdir(src) if re.match(r"^C\d\d$", d))
    head = sh("git -C /repo rev-parse --short HEAD")[1].strip()
    for prop in props:
        for k in (1, 2, 3):
            patch = os.path.join(src, prop, "patch%d.diff" % k)
            demo = os.path.join(src, prop, "demo%d.py" % k)
            note = os.path.join(src, prop, "note%d.txt" % k)
            if not os.path.isfile(patch):
                continue
            wt = "/tmp/ev/seed-%s-%d" % (prop, k)
            shutil.rmtree(wt, ignore_errors=True)
            os.makedirs("/tmp/ev", exist_ok=True)
            rc, out = sh("git -C /repo worktree add -q --detach %s HEAD" % wt)
            try:
                shutil.copy(demo, os.path.join(wt, "_demo.py"))
                base_rc, _ = sh("/venv/bin/python _demo.py", cwd=wt)
                arc, aout = sh("git apply %s" % patch, cwd=wt)
                trc, tout = sh("/venv/bin/python -m pytest -q -p no:cacheprovider", cwd=wt)
                mut_rc, mout = sh("/venv/bin/python _demo.py", cwd=wt)
                tests_line = tout.strip().splitlines()[-1] if tout.strip() else ""
                env = dict(os.environ)
                env["SYMX_REPO"] = wt
                detected = {}
                for tier in (("quick",) if os.environ.get("SEED_QUICK_ONLY") else ("quick", "thorough")):
                    crc, cout = sh("python3-vt -m symx.check %s --tier %s --no-evidence" % (prop, tier), cwd=HERE, env=env, timeout=4000)
                    labels = sorted(set(re.findall(r"counterexample reproduced on the pristine code: (\S+) --", cout)))
                    detected = {"tier": tier, "exit_code": crc, "labels": labels,
                                "command": "SYMX_REPO=<worktree with patch applied> python3-vt -m symx.check %s --tier %s" % (prop, tier)}
                    if crc == 1:
                        break
                ok = arc == 0 and base_rc == 0 and mut_rc != 0 and trc == 0
                tag = os.environ.get("SEED_TAG", "")
                dst = os.path.join(HERE, "seeded", "%s-%s%d" % (prop, tag, k))
                os.makedirs(dst, exist_ok=True)
                shutil.copy(patch, os.path.join(dst, "patch.diff"))
                shutil.copy(demo, os.path.join(dst, "demo.py"))
                meta = {
                    "property": prop,
                    "origin": os.environ.get("SEED_ORIGIN", "independent sub-agent given only the property text and a scratch worktree"),
                    "repo_head": head,
                    "needs_to_manifest": open(note).read().strip() if os.path.isfile(note) else "",
                    "confirmed": {"patch_applies": arc == 0, "suite_with_patch": tests_line, "demo_without_patch_exit": base_rc,
                                  "demo_with_patch_exit": mut_rc, "kept": ok},
                    "what_was_run": ["git worktree add <scratch> HEAD; git apply patch.diff",
                                     "/venv/bin/python -m pytest -q -p no:cacheprovider   (in the scratch worktree)",
                                     "/venv/bin/python demo.py   (with and without the patch)", detected.get("command")],
                    "detection": detected,
                }
                with open(os.path.join(dst, "meta.json"), "w") as f:
                    json.dump(meta, f, indent=1)
                print("%s-%s%d kept=%s detected=%s tier=%s labels=%s" % (prop, os.environ.get("SEED_TAG", ""), k, ok, detected.get("exit_code") == 1, detected.get("tier"), detected.get("labels")), flush=True)
            finally:
                sh("git -C /repo worktree remove --force %s" % wt)


if __name__ == "__main__":
    main()
