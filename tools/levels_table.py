#!/usr/bin/env python3
"""prints a markdown table of every level of every check (quick and thorough) from harness/Cxx.py"""
import importlib, os, sys
HERE = os.path.dirname(os.path.dirname(os.path.abspath(__file__)))
sys.path.insert(0, HERE)


def brief(l):
    keys = []
    for k in sorted(l):
        if k in ("name", "budget"):
            continue
        v = l[k]
        s = repr(v)
        if len(s) > 70:
            s = s[:67] + "..."
        keys.append("%s=%s" % (k, s))
    return "; ".join(keys)


for i in range(1, 21):
    m = importlib.import_module("harness.C%02d" % i)
    q = m.levels("quick")
    t = m.levels("thorough")
    print("**C%02d** quick: %s" % (i, ", ".join("`%s`" % l["name"] for l in q)))
    print()
    print("thorough adds: %s" % ", ".join("`%s`" % l["name"] for l in t))
    print()
