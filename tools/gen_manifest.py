#!/usr/bin/env python3
"""Regenerates /verif/MANIFEST.json from the table below (run after adding a harness)."""
import json
import os

HERE = os.path.dirname(os.path.dirname(os.path.abspath(__file__)))

TECH = "bounded symbolic execution of the real source (import-hook proxies) with z3 deciding every branch and assertion; counterexamples replayed on the pristine code"

CHECKS = {
    "C01": ("§6 C01", "All histories of <=2 (quick) / <=3 (thorough) write requests over the full alphabet on a pool of 3 LRUs with symbolic stem bytes: "
            "every feasible comparison outcome (hence every sibling-BST shape) is explored and the page enumeration, counts, crawled marks and "
            "report figures are proved equal to the reference model for all byte values on each path."),
}

NOTE = ("Trusted base: z3 (unsat answers), the proxy/shim layer (differentially self-tested against struct/bytearray/re at every run and "
        "validated by replaying sampled passing paths on the pristine code), the reference model in harness/common.py. "
        "Claims are bounded: see coverage.levels in the evidence for the pool shape, payload length and history length of each completed level.")

PENDING_REASON = "check not built yet (work in progress; solver-based harness planned in DESIGN.md §6)"

NOT_APPLICABLE = {}


def main():
    props = [json.loads(l) for l in open(os.path.join(HERE, "properties.jsonl"))]
    checks = []
    na = []
    for p in props:
        pid = p["id"]
        if pid in CHECKS and os.path.isfile(os.path.join(HERE, "harness", pid + ".py")):
            ref, text = CHECKS[pid]
            checks.append({
                "property_id": pid,
                "quick_cmd": "python3-vt -m symx.check %s --tier quick" % pid,
                "thorough_cmd": "python3-vt -m symx.check %s --tier thorough" % pid,
                "evidence_file": "/verif/evidence/%s.json" % pid,
                "replay_cmd_template": "python3-vt -m symx.check %s --replay {path}" % pid,
                "engine": "symx",
                "level_claimed": {"category": "model_checking", "text": text, "design_ref": ref},
                "level_note": NOTE,
                "technique": TECH,
            })
        else:
            na.append({"property_id": pid, "reason": NOT_APPLICABLE.get(pid, PENDING_REASON)})
    m = {
        "version": 1,
        "setup_cmd": "python3-vt -m symx.selftest",
        "hooks": {
            "guard": "HYPHE_TRAPH_VERIF",
            "enable": "no source hooks: the checks load /repo's working tree through an import hook (symx.loader); the guard name is reserved and unused",
            "baseline_off_cmd": "cd /repo && /venv/bin/python -m pytest -ra -q -p no:cacheprovider --timeout=900 --continue-on-collection-errors",
            "source_commits": [],
            "add_only": True,
        },
        "engines": [{
            "name": "symx", "path": "/verif/symx",
            "serves_properties": [c["property_id"] for c in checks],
            "kind_free_text": "proxy-object symbolic executor for the repository's Python source; z3 (QF_BV/LIA) decides every branch; stateless DFS over decision prefixes on 16 processes",
        }],
        "checks": checks,
        "not_applicable": na,
        "notes": "exit codes: 0 held / 1 VIOLATION (reproduced on pristine code) / 2 engine or harness error (never a finding). known_findings.txt lists open and fixed findings.",
    }
    with open(os.path.join(HERE, "MANIFEST.json"), "w") as f:
        json.dump(m, f, indent=1)
    print("checks:", [c["property_id"] for c in checks], "not_applicable:", len(na))


if __name__ == "__main__":
    main()
