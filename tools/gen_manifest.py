#!/usr/bin/env python3
"""Regenerates /verif/MANIFEST.json from the table below (run after adding a harness)."""
import json
import os

HERE = os.path.dirname(os.path.dirname(os.path.abspath(__file__)))

TECH = "bounded symbolic execution of the real source (import-hook proxies) with z3 deciding every branch and assertion; counterexamples replayed on the pristine code"

CHECKS = {
    "C01": ("§6 C01", "Every history of <=2 (quick) / <=3 (thorough) write requests over the full request alphabet on a pool of LRUs with symbolic stem bytes: all feasible comparison outcomes (hence all sibling-BST shapes and nestings) are explored; page enumeration, counts, crawled marks and report figures are decided equal to the reference model for all byte values on each path."),
    "C02": ("§6 C02", "For every bounded history and every stem-prefix of every pool LRU plus a never-inserted LRU: top-down lookup succeeds iff the prefix was named, bottom-up reconstruction and full traversal return the submitted bytes (validity queries over symbolic bytes), and the raw blocks satisfy the ternary-search-tree invariants (strict BST order decided by the solver on symbolic stems, single reference, parent pointers, tail chains). Stem lengths 74/75/148/149/222 bytes included."),
    "C03": ("§6 C03", "All bounded histories of add_links / index_batch_crawl interleaved with page and webentity writes: out-weight = in-weight = submissions for every ordered pair, self-links internal once, total count, both enumerations (transposes), degree helpers, for all 8 switch combinations of get_page_links."),
    "C04": ("§6 C04", "All bounded histories of webentity creations, deletions, prefix additions, removals and moves: resolution of every pool LRU, every stem-prefix, an extension by a fresh symbolic stem and a fresh LRU equals the longest attached stem-prefix of the reference model; refusals exactly when a prefix is already attached."),
    "C05": ("§6 C05", "All bounded histories plus state templates: each webentity's page list (both prefix orders, crawled-only variant) equals the pages that resolve to it in the model, no duplicates, nested webentities excluded, union covers every resolving page."),
    "C06": ("§6 C06", "Configurations (default rule x anchored rule from Hyphe's family) x typed symbolic LRUs x insertion histories: creation iff K longer than E, created prefix set = K plus free variations (structural oracle independent of any regex engine), potential prefix = max(E,K) with byte-identical stores before/after, rule installation = re-insertion of the pages beneath the anchor."),
    "C07": ("§6 C07", "All bounded states (free histories and templates): webentity network weights = page links pushed through model resolution, include_auto on/off, inbound = transpose, memory-light variant equal, crawled/uncrawled tallies."),
    "C08": ("§6 C08", "All bounded states and every alive webentity: pagelinks for the 7 switch combinations (8th refused), cited/citing sets, degree helpers, against the model's link multiset filtered by membership."),
    "C09": ("§6 C09", "All bounded states, page sizes, crawled-only on/off, prefix orders and one insertion between calls at any position: completeness, no repeat, no skip, order (solver-checked < on symbolic LRUs), page size, done flag, counts; token codec round-trip decided over bit-vectors for all paths up to 12 base-64 digits."),
    "C10": ("§6 C10", "All subsets of link-bearing pages over two prefixes (template) and bounded free histories: paginated union = unpaginated answer, exact source-page count per non-final answer, every issued token resumes without any exception."),
    "C11": ("§6 C11", "Twin indexes driven in lockstep on the in-memory file system, one closed/reopened (rules re-supplied) or cleared at any position: every observation of a read battery equal, file sizes whole blocks, final store bytes identical."),
    "C12": ("§6 C12", "All bounded histories of explicit/automatic creations, deletions, rule installations, reopen and clear: every issued id exceeds all ids issued since creation/clear, one id per request, ids equal the model's sequence."),
    "C13": ("§6 C13", "All bounded histories that create unmarked paths first and attach prefixes later by every route: child and parent webentity sets equal the model's sets at any depth."),
    "C14": ("§6 C14", "State templates x every read-only API call with its switch combinations and arguments (pool LRUs, absent LRUs, unknown webentity): both stores byte-identical before and after every call, answered or refused, memory and file back-ends."),
    "C15": ("§6 C15", "Memory and file index driven in lockstep over symbolic configurations (default rule, anchored rule, overwrite) and histories, multi-block stems included: identical outcomes/answers/exceptions, identical final store bytes, memory-mapped reader returns every block."),
    "C16": ("§6 C16", "Every schedule of 2-3 generator requests with every loop iteration a yield point: no request fails, final pages/links = sequential application, in/out symmetry, each query answer between what qualified throughout and what qualified at some moment (atomic snapshots at every step)."),
    "C17": ("§6 C17", "Every LRU of the stated shape within the bounds (0-3 hosts, path stems up to 8 symbolic bytes): no exception, input first, pairwise distinct, only scheme/www changes (validity over symbolic bytes), closure of the class; automatic creation independent of which variation is seen first."),
    "C18": ("§6 C18", "Every cut of the program-ordered write log of every bounded history, with the number of persisted bytes of a torn append a symbolic integer: open refuses with the library's error or the index is traversable and reports a subset of the completed history."),
    "C19": ("§6 C19", "All bounded histories with stems of 74/75/148/149/222 bytes: trie blocks = 1 + sum of ceil(len/74) over named stem-prefixes, link blocks = 1 + 2 x submissions, every block referenced, metrics equal the model, re-submission grows nothing."),
    "C20": ("§6 C20", "State templates and bounded histories x k x depth limit: size, membership, order, exact indegree by distinct sources, top-k optimality. The one deviation pinned by the repository's suite (indegree 1 for unlinked pages) is a listed known finding; everything else is checked behind it."),
}

NOTE = ("Trusted base: z3 (unsat answers), the proxy/shim layer (differentially self-tested against struct/bytearray/re at every run and "
        "validated by replaying sampled passing paths on the pristine code), the reference model in harness/common.py. "
        "Claims are bounded: see coverage.levels in the evidence for the pool shape, payload length and history length of each completed level.")

PENDING_REASON = "check not built yet (work in progress; solver-based harness planned in DESIGN.md §6)"

NOT_APPLICABLE = {}


def main():
    props = [json.loads(l) for l in open(os.path.join(HERE, "properties.jsonl"))]
    checks = []
    na = []
    for p in props:
        pid = p["id"]
        if pid in CHECKS and os.path.isfile(os.path.join(HERE, "harness", pid + ".py")):
            ref, text = CHECKS[pid]
            checks.append({
                "property_id": pid,
                "quick_cmd": "python3-vt -m symx.check %s --tier quick" % pid,
                "thorough_cmd": "python3-vt -m symx.check %s --tier thorough" % pid,
                "evidence_file": "/verif/evidence/%s.json" % pid,
                "replay_cmd_template": "python3-vt -m symx.check %s --replay {path}" % pid,
                "engine": "symx",
                "level_claimed": {"category": "model_checking", "text": text, "design_ref": ref},
                "level_note": NOTE,
                "technique": TECH,
            })
        else:
            na.append({"property_id": pid, "reason": NOT_APPLICABLE.get(pid, PENDING_REASON)})
    m = {
        "version": 1,
        "setup_cmd": "python3-vt -m symx.selftest",
        "hooks": {
            "guard": "HYPHE_TRAPH_VERIF",
            "enable": "no source hooks: the checks load /repo's working tree through an import hook (symx.loader); the guard name is reserved and unused",
            "baseline_off_cmd": "cd /repo && /venv/bin/python -m pytest -ra -q -p no:cacheprovider --timeout=900 --continue-on-collection-errors",
            "source_commits": [],
            "add_only": True,
        },
        "engines": [{
            "name": "symx", "path": "/verif/symx",
            "serves_properties": [c["property_id"] for c in checks],
            "kind_free_text": "proxy-object symbolic executor for the repository's Python source; z3 (QF_BV/LIA) decides every branch; stateless DFS over decision prefixes on 16 processes",
        }],
        "checks": checks,
        "not_applicable": na,
        "notes": "exit codes: 0 held / 1 VIOLATION (reproduced on pristine code) / 2 engine or harness error (never a finding). known_findings.txt lists open and fixed findings.",
    }
    with open(os.path.join(HERE, "MANIFEST.json"), "w") as f:
        json.dump(m, f, indent=1)
    print("checks:", [c["property_id"] for c in checks], "not_applicable:", len(na))


if __name__ == "__main__":
    main()
