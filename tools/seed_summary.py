#!/usr/bin/env python3
"""writes seeded/SUMMARY.md from the meta.json files"""
import json, os, glob
HERE = os.path.dirname(os.path.dirname(os.path.abspath(__file__)))
rows = []
for m in sorted(glob.glob(os.path.join(HERE, "seeded", "*", "meta.json"))):
    d = json.load(open(m))
    name = os.path.basename(os.path.dirname(m))
    need = " ".join(d.get("needs_to_manifest", "").split())
    if len(need) > 260:
        need = need[:257] + "..."
    det = d.get("detection", {})
    verdict = "caught" if det.get("exit_code") == 1 else "MISSED"
    labels = ", ".join(det.get("labels", []))
    other = d.get("detection_by_other_property")
    if verdict == "MISSED" and other:
        verdict = "caught by %s" % other["property"]
        labels = ", ".join(other["labels"])
    if verdict == "MISSED" and d.get("not_detected_because"):
        labels = "not caught: " + d["not_detected_because"]
    rows.append("| %s | %s | %s | %s | %s | %s |" % (
        name, d["property"], "yes" if d["confirmed"]["kept"] else "NO", verdict, det.get("tier", ""), labels))
    rows.append("| | | | | | _%s_ |" % need.replace("|", "\\|"))
with open(os.path.join(HERE, "seeded", "SUMMARY.md"), "w") as f:
    f.write("# Seeded changes and the checks that catch them\n\n")
    f.write("Each change was written by an independent sub-agent from the property text alone, confirmed in a scratch worktree\n"
            "(applies on the repository HEAD, the 31 tests pass with it, its demo fails with it and passes without it), and the\n"
            "property's check was run against the patched tree (`SYMX_REPO=<worktree> python3-vt -m symx.check <id> --tier <tier>`).\n"
            "`tools/seed_mutants.py` regenerates the meta.json files, `tools/seed_summary.py` this table.\n\n")
    f.write("| change | property | confirmed | check | tier | failing labels / what it needs |\n|---|---|---|---|---|---|\n")
    f.write("\n".join(rows) + "\n")
print(len(rows) // 2, "changes")
