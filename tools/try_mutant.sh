#!/bin/bash
# usage: try_mutant.sh <patch.diff> <demo.py> <Cxx> [tier]
# applies the patch in a scratch worktree of /repo HEAD, confirms suite passes + demo fails (and passes without),
# then runs the check of the property against the patched tree.
patch=$(readlink -f "$1"); demo=$(readlink -f "$2"); prop=$3; tier=${4:-quick}
wt=/tmp/ev/$prop-$$
mkdir -p /tmp/ev
git -C /repo worktree add -q --detach $wt HEAD || exit 3
cd $wt
cp "$demo" ./_demo.py
/venv/bin/python _demo.py >/dev/null 2>&1; base=$?
git apply "$patch" || { echo "patch does not apply"; git -C /repo worktree remove --force $wt; exit 3; }
tests=$(/venv/bin/python -m pytest -q -p no:cacheprovider 2>&1 | tail -1)
/venv/bin/python _demo.py >/dev/null 2>&1; mut=$?
echo "demo on base rc=$base, on mutant rc=$mut; tests: $tests"
cd /verif
SYMX_REPO=$wt python3-vt -m symx.check $prop --tier $tier --no-evidence ${BUDGET:+--budget $BUDGET} 2>&1 | grep -E "level |VIOLATION|reproduced|ENGINE|NOT reproduce|paths=" | cut -c1-260
git -C /repo worktree remove --force $wt
