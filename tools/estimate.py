#!/usr/bin/env python3
"""Knuth's estimator of the number of paths of every level of a check (random root-to-leaf probes):
   python3-vt tools/estimate.py C03 thorough [probes]"""
import importlib, os, random, sys, time, warnings
from multiprocessing import get_context
HERE = os.path.dirname(os.path.dirname(os.path.abspath(__file__)))
sys.path.insert(0, HERE)


def probe(args):
    modname, lv, seed, n = args
    from symx import core
    from symx.api import SymAPI
    warnings.simplefilter("ignore")
    sys.setrecursionlimit(10000)
    mod = importlib.import_module(modname)
    rnd = random.Random(seed)
    stats = core.Stats()
    tot = 0.0
    t0 = time.time()
    k = 0
    for _ in range(n):
        r = core.run_path(lambda p: mod.harness(SymAPI(p, lv)), [], stats, probe=rnd)
        if r.status in ("ok", "violation"):
            tot += r.weight
        k += 1
    return tot, k, time.time() - t0


def main():
    prop, tier = sys.argv[1], sys.argv[2]
    n = int(sys.argv[3]) if len(sys.argv) > 3 else 320
    mod = importlib.import_module("harness." + prop)
    levels = mod.levels(tier)
    ctx = get_context("fork")
    with ctx.Pool(16) as pool:
        for lv in levels:
            res = pool.map(probe, [("harness." + prop, lv, 1000 + i, n // 16) for i in range(16)])
            tot = sum(r[0] for r in res)
            k = sum(r[1] for r in res)
            sec = sum(r[2] for r in res) / max(1, k)
            est = tot / max(1, k)
            print("%s %-16s ~%10.0f paths  (%.0f ms/path, ~%4.0f s on 16 cores)" % (prop, lv["name"], est, sec * 1000, est * sec / 16), flush=True)


if __name__ == "__main__":
    main()
