#!/usr/bin/env python3
import json,sys
for f in sys.argv[1:]:
    s=json.load(open(f))
    print(f, s['label'], '--', s.get('detail'))
    print('  params:', {k:v for k,v in s['params'].items()})
    print('  inputs:', {k:(bytes.fromhex(v['bytes']) if isinstance(v,dict) else v) for k,v in s['inputs'].items()})
