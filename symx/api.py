"""The harness-facing API, symbolic implementation.  The same harness functions
run against symx.concrete.ConcreteAPI for replays on the pristine code."""
import z3

from symx import core
from symx.core import (SymBytes, SymBool, SymInt, ViolationFound, Infeasible, s_and, s_or, s_not,
                       s_implies, wrap)


class SymAPI(object):
    symbolic = True

    def __init__(self, path, params=None):
        self.p = path
        self.params = params or {}
        self._names = set()
        self._traph_mod = None
        self.events = []       # op-kind / oracle-branch labels reached (vacuity guard)
        from symx.shims import fs_shim
        fs_shim.FS.reset()     # no state may leak from one path to the next
        core.HASH_BY_CONTENT = False

    # -- inputs -----------------------------------------------------------------
    def _name(self, name):
        if name in self._names:
            raise core.EngineError("duplicate input name %r" % name)
        self._names.add(name)

    def bytes(self, name, n, exclude=(0x7c,), domain=None):
        """n fresh symbolic bytes (each != every value in `exclude`, or inside `domain`)."""
        if core.HASH_BY_CONTENT:
            raise core.EngineError("symbolic bytes declared in concrete mode")
        self._name(name)
        items = tuple(self.p.fresh_byte("%s.%d" % (name, i), exclude=exclude, domain=domain) for i in range(n))
        v = SymBytes(items)
        self.p.inputs.append(("bytes", name, v))
        return v

    def const(self, b):
        return SymBytes(tuple(b))

    def concrete_mode(self):
        """every byte string of this path is concrete: proxies hash like the bytes they stand for"""
        if any(k == "bytes" for k, _n, _v in self.p.inputs):
            raise core.EngineError("concrete_mode() after symbolic bytes were declared")
        core.HASH_BY_CONTENT = True

    def choose(self, name, n):
        self._name(name)
        k = self.p.choose(n)
        self.p.inputs.append(("choice", name, k))
        return k

    def flag(self, name):
        return bool(self.choose(name, 2))

    def int(self, name, lo, hi, bv=0):
        self._name(name)
        if bv:
            from symx import symstr
            symstr.WIDTH = bv      # integers flowing through the codec tables use this width
            e = z3.BitVec(name, bv)
            v = SymInt(e, bv)
            self.p.assume(z3.And(z3.UGE(e, z3.BitVecVal(lo, bv)), z3.ULE(e, z3.BitVecVal(hi, bv))))
        else:
            e = z3.Int(name)
            v = SymInt(e, 0)
            self.p.assume(z3.And(e >= lo, e <= hi))
        self.p.inputs.append(("int", name, v))
        return v

    # -- conditions -------------------------------------------------------------
    def assume(self, cond):
        if isinstance(cond, SymBool):
            self.p.assume(cond.e)
        elif not cond:
            raise Infeasible()

    def check(self, cond, label, detail=None):
        """Property assertion: the false side, if feasible for any value, ends the
        path as a violation (with a model); the path continues on the true side."""
        self.p.stats.checks += 1
        self.p.labels_reached.add(label)
        if isinstance(cond, SymBool):
            self.p.stats.checks_symbolic += 1
            ok = self.p.decide(cond.e, prefer=True)
        else:
            ok = bool(cond)
        if not ok:
            raise ViolationFound(label, detail)

    def soft_fail(self, label, detail=None):
        """record a deviation and keep exploring the path (used for deviations that are
        listed as known findings, so that everything else is still checked behind them);
        the path is reported as violating `label` when it ends"""
        self.p.labels_reached.add(label)
        if not self.p.soft:
            self.p.soft.append((label, detail))

    def fail(self, label, detail=None):
        self.p.labels_reached.add(label)
        raise ViolationFound(label, detail)

    def reach(self, label):
        self.p.labels_reached.add("reach:" + label)

    def observe(self, label, value):
        self.p.observations.append((label, value))

    # combinators (no forking)
    all = staticmethod(s_and)
    any = staticmethod(s_or)
    neg = staticmethod(s_not)
    implies = staticmethod(s_implies)
    wrap = staticmethod(wrap)

    def eq(self, a, b):
        """a == b as a formula (bytes, ints, bools, or lists/tuples thereof, same shape)."""
        if isinstance(a, (list, tuple)) and isinstance(b, (list, tuple)):
            if len(a) != len(b):
                return False
            return s_and(*[self.eq(x, y) for x, y in zip(a, b)])
        a = wrap(a)
        b = wrap(b)
        if isinstance(a, SymBytes) or isinstance(b, SymBytes):
            if not (isinstance(a, SymBytes) and isinstance(b, SymBytes)):
                return False
            return a == b
        r = a == b
        return r

    # -- the system under test --------------------------------------------------
    def traph_module(self):
        if self._traph_mod is None:
            from symx import loader
            loader.install()
            import traph
            self._traph_mod = traph
        return self._traph_mod

    def fs(self):
        from symx.shims import fs_shim
        return fs_shim.FS

    def fresh_folder(self, name="idx"):
        return "/symfs/%s" % name

    def write_log(self):
        """program-ordered events on the files of the shim file system since the path began:
        [basename, 'create'] or [basename, offset, data, was_append]"""
        import os
        out = []
        for path, off, items, app in self.fs().log:
            if off == "truncate":
                out.append([os.path.basename(path), "create"])
            else:
                out.append([os.path.basename(path), off, SymBytes(items), app])
        return out

    def materialise(self, folder, events, torn=None):
        """build `folder` holding exactly the given events; torn = (event, r): the first r
        bytes (r may be symbolic) of that append follow"""
        import os
        fs = self.fs()
        fs.logging = False
        fs.dirs.add(folder)
        for ev in events:
            path = os.path.join(folder, ev[0])
            if ev[1] == "create":
                fs.files[path] = []
            else:
                buf = fs.files[path]
                items = list(ev[2].items)
                if ev[1] > len(buf):
                    buf.extend([0] * (ev[1] - len(buf)))
                buf[ev[1]:ev[1] + len(items)] = items
        if torn is not None:
            ev, r = torn
            path = os.path.join(folder, ev[0])
            if isinstance(r, SymInt):
                fs.torn[path] = (r, tuple(ev[2].items))
            else:
                fs.files[path].extend(list(ev[2].items)[:r])

    @property
    def struct(self):
        from symx.shims import struct_shim
        return struct_shim

    def raw_store(self, t, which):
        """whole content of a store ('trie' or 'links') as a byte string"""
        st = t.lru_trie_storage if which == "trie" else t.links_store_storage
        if hasattr(st, "array"):
            return st.array[0:len(st.array)]
        f = st.file
        return SymBytes(tuple(f.fs.files[f.path]))

    def module(self, name):
        self.traph_module()
        import importlib
        return importlib.import_module(name)

    def Traph(self, **kw):
        return self.traph_module().Traph(**kw)

    @property
    def TraphException(self):
        return self.traph_module().TraphException

    def call(self, site, fn, *args, **kw):
        """Run an API call; the library's own error is returned, anything else is
        a violation candidate labelled with the call site and exception type."""
        allowed = kw.pop("_allowed", None)
        if allowed is None:
            allowed = (self.TraphException,)
        try:
            return True, fn(*args, **kw)
        except allowed as e:
            return False, e
        except Exception as e:
            import traceback
            tb = traceback.extract_tb(e.__traceback__)
            where = ""
            for fr in reversed(tb):
                if "/traph/" in fr.filename:
                    where = "%s:%d" % (fr.filename.split("/traph/")[-1], fr.lineno)
                    break
            raise ViolationFound("exc:%s@%s" % (e.__class__.__name__, site), "%s: %s at %s" % (e.__class__.__name__, e, where))
