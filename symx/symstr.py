"""Symbolic `str` (token codec only) and the helpers-module table proxies.

`helpers.BASE64[x % 64]`, `helpers.BASE64_INDEX[c]` and `int(text)` are C slots
that cannot see a proxy; the loader swaps the two tables for proxies with the
same contents (read from the module as loaded, not hard-coded) and pre-seeds
`int` with a parser that accepts a SymStr."""
import builtins

import z3

from symx import core
from symx.core import SymBytes, SymInt, SymBool, Unsupported, _mk_bool, s_or

# bit width used for symbolic integers that flow through the codec tables
WIDTH = 48


def _conv_str(x):
    if isinstance(x, SymStr):
        return x.items
    if isinstance(x, str):
        return tuple(ord(c) for c in x)
    return None


class SymStr(SymBytes):
    __slots__ = ()
    _kind = "str"
    _conv = staticmethod(_conv_str)

    def __getitem__(self, k):
        if isinstance(k, slice):
            return SymStr(self.items[k])
        if isinstance(k, SymInt):
            k = k.__index__()
        return SymStr(self.items[k:k + 1] if k >= 0 else self.items[k:][:1])

    def __iter__(self):
        for it in self.items:
            yield SymStr((it,))

    def __hash__(self):
        return hash(("symstr", len(self.items)))

    def __eq__(self, o):
        if isinstance(o, (bytes, bytearray)) or (isinstance(o, SymBytes) and not isinstance(o, SymStr)):
            return False
        return SymBytes.__eq__(self, o)

    def __ne__(self, o):
        return core.s_not(self.__eq__(o))

    def concrete(self):
        return "".join(chr(c) for c in self.items)

    def encode(self, *a, **k):
        raise Unsupported("encode() of a symbolic str")

    def __repr__(self):
        return "T" + SymBytes.__repr__(self)[1:]

    __str__ = __repr__


def format_mod(fmt, args):
    """`fmt % args` with proxies among the arguments."""
    if not isinstance(args, tuple):
        args = (args,)
    if isinstance(fmt, str) and any(isinstance(a, SymStr) for a in args):
        out = SymStr(())
        i = 0
        k = 0
        lit = []
        while i < len(fmt):
            c = fmt[i]
            if c != "%":
                lit.append(c)
                i += 1
                continue
            spec = fmt[i + 1]
            i += 2
            if spec == "%":
                lit.append("%")
                continue
            a = args[k]
            k += 1
            out = out + "".join(lit)
            lit = []
            if spec == "s":
                out = out + (a if isinstance(a, SymStr) else str(a))
            elif spec in "id":
                if isinstance(a, SymInt):
                    a = a.__index__()
                out = out + ("%d" % a)
            else:
                raise Unsupported("format spec %%%s with a symbolic argument" % spec)
        return out + "".join(lit)
    # message formatting: proxies are rendered by repr (the text is never inspected)
    conc = tuple(repr(a) if core_is_proxy(a) else a for a in args)
    if isinstance(fmt, bytes):
        conc = tuple(c.encode() if isinstance(c, str) else c for c in conc)
        fmt = fmt.replace(b"%i", b"%s").replace(b"%d", b"%s") if any(isinstance(c, bytes) for c in conc) else fmt
    try:
        return fmt % conc
    except TypeError:
        return repr((fmt, conc))


def core_is_proxy(a):
    return isinstance(a, (SymBytes, SymInt, SymBool)) or (
        isinstance(a, (list, tuple, dict)) and any(core_is_proxy(x) for x in (a.values() if isinstance(a, dict) else a)))


def int_(x=0, base=10):
    if isinstance(x, SymStr):
        if x.is_concrete():
            return builtins.int(x.concrete(), base)
        raise Unsupported("int() of a symbolic str")
    if isinstance(x, SymInt):
        return x
    if base != 10:
        return builtins.int(x, base)
    return builtins.int(x)


class SymTable(object):
    """str table indexed by a symbolic integer: ITE chain over its entries."""

    def __init__(self, text):
        self.text = text

    def __len__(self):
        return len(self.text)

    def __iter__(self):
        return iter(self.text)

    def __getitem__(self, k):
        if not isinstance(k, SymInt):
            return self.text[k]
        if not k.bv:
            raise Unsupported("LIA index into a table")
        p = core.cur()
        n = len(self.text)
        # index must be in range on every value
        inb = z3.ULT(k.e, z3.BitVecVal(n, k.bv))
        if not p.decide(inb):
            raise IndexError("string index out of range")
        e = z3.BitVecVal(ord(self.text[n - 1]), 8)
        for i in range(n - 2, -1, -1):
            e = z3.If(k.e == i, z3.BitVecVal(ord(self.text[i]), 8), e)
        return SymStr((z3.simplify(e),))

    def __add__(self, o):
        return self.text + o

    def __eq__(self, o):
        return self.text == o

    def __hash__(self):
        return hash(self.text)


class SymIndex(dict):
    """char -> int table looked up with a symbolic character."""

    def __getitem__(self, c):
        if not isinstance(c, SymStr):
            return dict.__getitem__(self, c)
        if len(c) != 1:
            raise KeyError(c)
        it = c.items[0]
        if isinstance(it, int):
            return dict.__getitem__(self, chr(it))
        p = core.cur()
        keys = sorted(self.keys())
        member = z3.Or([it == ord(k) for k in keys])
        if not p.decide(member):
            raise KeyError(c)
        e = z3.BitVecVal(dict.__getitem__(self, keys[-1]), WIDTH)
        for k in keys[:-1]:
            e = z3.If(it == ord(k), z3.BitVecVal(dict.__getitem__(self, k), WIDTH), e)
        return SymInt(z3.simplify(e), WIDTH)


def patch_helpers(mod):
    if isinstance(getattr(mod, "BASE64", None), str):
        mod.BASE64 = SymTable(mod.BASE64)
    if isinstance(getattr(mod, "BASE64_INDEX", None), dict) and not isinstance(mod.BASE64_INDEX, SymIndex):
        mod.BASE64_INDEX = SymIndex(mod.BASE64_INDEX)
