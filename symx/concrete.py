"""Concrete implementation of the harness API: every input comes from a recorded
scenario; the system under test is the *pristine* repository (no import hook,
real struct/re/mmap, real files in a scratch directory).  Runs under the
repository's own interpreter; must not import z3."""
import os
import shutil
import sys
import tempfile


class CheckFailed(Exception):
    def __init__(self, label, detail=None):
        Exception.__init__(self, label)
        self.label = label
        self.detail = detail


class ScenarioMismatch(Exception):
    pass


class ConcreteAPI(object):
    symbolic = False

    def __init__(self, scenario, params=None, repo="/repo"):
        self.inputs = scenario          # name -> value
        self.params = params or {}
        self.repo = repo
        self.observations = []
        self._tmp = []
        self._traph_mod = None
        self.used = set()
        self.soft = []

    # -- inputs -----------------------------------------------------------------
    def _get(self, name):
        if name not in self.inputs:
            raise ScenarioMismatch("input %r not in scenario" % name)
        self.used.add(name)
        return self.inputs[name]

    def bytes(self, name, n, exclude=(0x7c,), domain=None):
        v = self._get(name)
        b = bytes.fromhex(v["bytes"])
        if len(b) != n:
            raise ScenarioMismatch("input %r has length %d, expected %d" % (name, len(b), n))
        return b

    def const(self, b):
        return bytes(b)

    def concrete_mode(self):
        pass

    def choose(self, name, n):
        v = self._get(name)
        if not (0 <= v < max(n, 1)):
            raise ScenarioMismatch("choice %r=%r out of range %d" % (name, v, n))
        return v

    def flag(self, name):
        return bool(self.choose(name, 2))

    def int(self, name, lo, hi, bv=0):
        return int(self._get(name))

    # -- conditions -------------------------------------------------------------
    def assume(self, cond):
        if not cond:
            raise ScenarioMismatch("assumption violated by the scenario")

    def check(self, cond, label, detail=None):
        if not cond:
            raise CheckFailed(label, detail)

    def fail(self, label, detail=None):
        raise CheckFailed(label, detail)

    def soft_fail(self, label, detail=None):
        if not self.soft:
            self.soft.append((label, detail))

    def reach(self, label):
        pass

    def observe(self, label, value):
        self.observations.append((label, value))

    @staticmethod
    def all(*xs):
        return all(xs)

    @staticmethod
    def any(*xs):
        return any(xs)

    @staticmethod
    def neg(x):
        return not x

    @staticmethod
    def implies(a, b):
        return (not a) or b

    @staticmethod
    def wrap(x):
        return x

    def eq(self, a, b):
        if isinstance(a, (list, tuple)) and isinstance(b, (list, tuple)):
            return len(a) == len(b) and all(self.eq(x, y) for x, y in zip(a, b))
        if isinstance(a, (bytes, bytearray)) != isinstance(b, (bytes, bytearray)):
            return False
        return a == b

    # -- the system under test --------------------------------------------------
    def traph_module(self):
        if self._traph_mod is None:
            if self.repo not in sys.path:
                sys.path.insert(0, self.repo)
            import traph
            assert os.path.realpath(traph.__file__).startswith(os.path.realpath(self.repo)), traph.__file__
            self._traph_mod = traph
        return self._traph_mod

    def fresh_folder(self, name="idx"):
        d = tempfile.mkdtemp(prefix="symx-replay-")
        self._tmp.append(d)
        return os.path.join(d, name)


    def _install_log(self):
        """log the writes of the real file objects opened by traph.traph (test double around open)"""
        import builtins
        mod = self.module("traph.traph")
        if getattr(self, "_log", None) is not None:
            return
        self._log = []
        log = self._log

        class LoggedFile(object):
            def __init__(self, f, path):
                self.__dict__["f"] = f
                self.__dict__["path"] = path

            def write(self, data):
                off = self.f.tell()
                self.f.seek(0, 2)
                end = self.f.tell()
                self.f.seek(off)
                log.append([os.path.basename(self.path), off, bytes(data), off >= end])
                return self.f.write(data)

            def __getattr__(self, name):
                return getattr(self.f, name)

        def logged_open(path, mode="r", *a, **k):
            f = builtins.open(path, mode, *a, **k)
            if "w" in mode:
                log.append([os.path.basename(path), "create"])
            return LoggedFile(f, path)
        mod.open = logged_open

    def Traph(self, **kw):
        if self.params.get("log_writes"):
            self._install_log()
        return self.traph_module().Traph(**kw)

    def write_log(self):
        return list(self._log)

    def materialise(self, folder, events, torn=None):
        os.makedirs(folder)
        files = {}
        for ev in events:
            path = os.path.join(folder, ev[0])
            if ev[1] == "create":
                files[path] = bytearray()
            else:
                buf = files[path]
                if ev[1] > len(buf):
                    buf.extend(b"\0" * (ev[1] - len(buf)))
                buf[ev[1]:ev[1] + len(ev[2])] = ev[2]
        if torn is not None:
            ev, r = torn
            files[os.path.join(folder, ev[0])].extend(ev[2][:int(r)])
        for path, buf in files.items():
            with open(path, "wb") as f:
                f.write(bytes(buf))

    @property
    def struct(self):
        import struct
        return struct

    def raw_store(self, t, which):
        st = t.lru_trie_storage if which == "trie" else t.links_store_storage
        if hasattr(st, "array"):
            return bytes(st.array)
        f = st.file
        f.flush()
        with open(f.name, "rb") as g:
            return g.read()

    def module(self, name):
        self.traph_module()
        import importlib
        return importlib.import_module(name)

    @property
    def TraphException(self):
        return self.traph_module().TraphException

    def call(self, site, fn, *args, **kw):
        allowed = kw.pop("_allowed", None)
        if allowed is None:
            allowed = (self.TraphException,)
        try:
            return True, fn(*args, **kw)
        except (CheckFailed, ScenarioMismatch):
            raise
        except allowed as e:
            return False, e
        except Exception as e:
            import traceback
            tb = traceback.extract_tb(e.__traceback__)
            where = ""
            for fr in reversed(tb):
                if "/traph/" in fr.filename:
                    where = "%s:%d" % (fr.filename.split("/traph/")[-1], fr.lineno)
                    break
            raise CheckFailed("exc:%s@%s" % (e.__class__.__name__, site), "%s: %s at %s" % (e.__class__.__name__, e, where))

    def cleanup(self):
        if getattr(self, "_log", None) is not None:
            try:
                del self.module("traph.traph").open
            except Exception:
                pass
        for d in self._tmp:
            shutil.rmtree(d, ignore_errors=True)
        self._tmp = []


def jsonable(v):
    if isinstance(v, (bytes, bytearray)):
        return {"bytes": bytes(v).hex()}
    if isinstance(v, (list, tuple)):
        return [jsonable(x) for x in v]
    if isinstance(v, (set, frozenset)):
        return {"set": sorted((jsonable(x) for x in v), key=repr)}
    if isinstance(v, dict):
        return dict((str(k) if not isinstance(k, (bytes, bytearray)) else "b:" + bytes(k).hex(), jsonable(x)) for k, x in v.items())
    if isinstance(v, float) and v == int(v):
        return int(v)
    return v


def run_scenario(harness, params, scenario, repo="/repo"):
    """-> dict(status=ok|violation|mismatch|crash, label, detail, observations)"""
    api = ConcreteAPI(scenario, params, repo)
    out = {"status": "ok", "label": None, "detail": None}
    try:
        import warnings
        with warnings.catch_warnings():
            warnings.simplefilter("ignore")
            harness(api)
        if api.soft:
            out.update(status="violation", label=api.soft[0][0], detail=api.soft[0][1])
    except CheckFailed as f:
        out.update(status="violation", label=f.label, detail=f.detail)
    except ScenarioMismatch as m:
        out.update(status="mismatch", detail=str(m))
    except Exception as e:
        import traceback
        out.update(status="crash", detail=traceback.format_exc()[-1500:])
    finally:
        api.cleanup()
    out["observations"] = [[l, jsonable(v)] for l, v in api.observations]
    return out
