"""Check driver:  python3-vt -m symx.check <ID> --tier quick|thorough
                  python3-vt -m symx.check <ID> --replay <file>

exit 0  every assertion on every explored path holds (open known findings are
        printed as KNOWN-FINDING lines)
exit 1  a counterexample produced by the solver reproduced on the pristine code:
        `VIOLATION property=<id> replay=<path>`
exit 2  harness/engine error: non-deterministic replay, a counterexample that
        does not reproduce, a vacuous harness (reserved: never a finding)
"""
import argparse
import fnmatch
import hashlib
import importlib
import json
import os
import shutil
import subprocess
import sys
import tempfile
import time

HERE = os.path.dirname(os.path.dirname(os.path.abspath(__file__)))
REPO = os.environ.get("SYMX_REPO", "/repo")
REPLAY_PY = os.environ.get("SYMX_REPLAY_PYTHON", "/venv/bin/python")
KNOWN = os.path.join(HERE, "known_findings.txt")


def read_known(prop):
    out = []
    if not os.path.isfile(KNOWN):
        return out
    for line in open(KNOWN):
        line = line.strip()
        if not line or line.startswith("#"):
            continue
        if not line.startswith("open:"):
            continue
        parts = line.split(None, 3)
        # open: property=<id> sig=<glob> <what fails>
        kv = dict(p.split("=", 1) for p in parts[1:3])
        if kv.get("property") == prop:
            out.append({"sig": kv["sig"], "what": parts[3] if len(parts) > 3 else ""})
    return out


def repo_state():
    def g(*a):
        try:
            return subprocess.run(["git", "-C", REPO] + list(a), capture_output=True, text=True, timeout=20).stdout.strip()
        except Exception:
            return "?"
    return {"head": g("rev-parse", "HEAD"), "dirty": bool(g("status", "--porcelain", "--", "traph"))}


def selftests():
    from symx.shims import struct_shim, builtins_shim, re_shim
    n = {}
    n["struct"] = struct_shim.selftest()
    n["bytearray"] = builtins_shim.selftest()
    n["re"] = re_shim.selftest()
    return n


def run_replays(scenarios, timeout=600):
    """-> list of result dicts (same order) from the pristine interpreter"""
    if not scenarios:
        return []
    d = tempfile.mkdtemp(prefix="symx-batch-")
    try:
        fin = os.path.join(d, "in.json")
        fout = os.path.join(d, "out.json")
        with open(fin, "w") as f:
            json.dump(scenarios, f)
        env = dict(os.environ)
        env["PYTHONPATH"] = HERE
        env["SYMX_REPO"] = REPO
        env.pop("HYPHE_TRAPH_VERIF", None)
        p = subprocess.run([REPLAY_PY, "-m", "symx.replay", "--batch", fin, fout], cwd=HERE, env=env,
                           capture_output=True, text=True, timeout=timeout)
        if p.returncode != 0 or not os.path.isfile(fout):
            raise RuntimeError("replay interpreter failed: %s\n%s" % (p.returncode, (p.stderr or "")[-2000:]))
        with open(fout) as f:
            return json.load(f)
    finally:
        shutil.rmtree(d, ignore_errors=True)


def second_opinion(dumpdir, limit=60, timeout=20):
    """re-decide a sample of the dumped queries with the z3 4.8.12 and cvc5 binaries"""
    import glob
    files = sorted(glob.glob(os.path.join(dumpdir, "q-*.smt2")))
    step = max(1, len(files) // limit)
    files = files[::step][:limit]
    solvers = {"z3-4.8.12": ["/usr/bin/z3", "-T:%d" % timeout], "cvc5": ["cvc5", "--tlimit=%d" % (timeout * 1000)]}
    out = {"queries": len(files), "solvers": {}, "disagreements": []}
    for name, cmd in solvers.items():
        agree = inconclusive = 0
        for f in files:
            expected = f.rsplit("-", 1)[1].split(".")[0]
            try:
                p = subprocess.run(cmd + [f], capture_output=True, text=True, timeout=timeout + 10)
                txt = (p.stdout or "") + (p.stderr or "")
            except Exception as e:
                txt = "(error %s)" % e
            lines = [l.strip() for l in txt.splitlines() if l.strip()]
            ans = lines[0] if lines else ""
            if "(error" in txt or ans not in ("sat", "unsat"):
                inconclusive += 1
            elif ans == expected:
                agree += 1
            else:
                out["disagreements"].append({"solver": name, "file": os.path.basename(f), "expected": expected, "got": ans})
        out["solvers"][name] = {"agree": agree, "inconclusive": inconclusive}
    return out


def scenario_of(prop, modname, params, item, label=None, detail=None):
    return {"property": prop, "module": modname, "params": params,
            "inputs": dict((n, v) for (_k, n, v) in item["inputs"]),
            "label": label, "detail": detail}


def main(argv=None):
    ap = argparse.ArgumentParser()
    ap.add_argument("prop")
    ap.add_argument("--tier", default=os.environ.get("VERIF_TIER", "quick"))
    ap.add_argument("--replay")
    ap.add_argument("--budget", type=float, default=None, help="wall seconds for the whole check")
    ap.add_argument("--level", default=None, help="run only the named level")
    ap.add_argument("--nproc", type=int, default=None)
    ap.add_argument("--no-evidence", action="store_true")
    args = ap.parse_args(argv)
    prop = args.prop
    if HERE not in sys.path:
        sys.path.insert(0, HERE)

    if args.replay:
        env = dict(os.environ)
        env["PYTHONPATH"] = HERE
        env["SYMX_REPO"] = REPO
        return subprocess.call([REPLAY_PY, "-m", "symx.replay", args.replay], cwd=HERE, env=env)

    t_start = time.time()
    seed = int(os.environ.get("VERIF_SEED", "0") or 0)
    tier = args.tier if args.tier in ("quick", "thorough") else "quick"
    modname = "harness.%s" % prop
    mod = importlib.import_module(modname)
    levels = mod.levels(tier)
    if tier == "thorough":
        # the thorough tier starts with every quick level it does not redefine under the same name
        quick = mod.levels("quick")
        qnames = set(l["name"] for l in quick)
        deeper = []
        for l in levels:
            if l["name"] in qnames:
                l = dict(l)
                l["name"] = l["name"] + "+"     # a deeper variant of a quick level never replaces it
            deeper.append(l)
        levels = quick + deeper
    if args.level:
        levels = [l for l in levels if l["name"] in args.level.split(",")]
    total_budget = args.budget or (float(os.environ.get("SYMX_BUDGET", 0)) or (170.0 if tier == "quick" else 1200.0))

    print("[%s] tier=%s seed=%d levels=%s repo=%s" % (prop, tier, seed, [l["name"] for l in levels], REPO))
    st = selftests()
    print("[%s] shim self-tests vs real struct/bytearray/re: %s cases ok" % (prop, st))

    from symx import explore, core
    known = read_known(prop)
    level_reports = []
    all_labels = set()
    functions = set()
    total = core.Stats()
    candidates = []       # (level, violation)
    samples = []
    engine_errors = []
    n_known_paths = 0
    dumpdir = tempfile.mkdtemp(prefix="symx-smt2-") if (tier == "thorough" or os.environ.get("SYMX_SECOND_OPINION")) else None
    for li, lv in enumerate(levels):
        remaining = total_budget - (time.time() - t_start)
        left = max(1, len(levels) - li)
        # fair share of what is left (a level that finishes early leaves its time to the later ones);
        # thorough levels may take up to twice their share as long as every later level keeps a minimum
        share = remaining / left
        reserve = 45.0 if tier != "quick" else 12.0
        share = min(remaining - reserve * (left - 1), share * 2.0)
        budget = max(5.0, min(remaining, lv.get("budget", share)))
        if remaining < 5.0:
            level_reports.append({"level": lv["name"], "params": lv, "complete": False, "skipped": True, "paths": 0})
            print("[%s] level %s skipped: budget exhausted" % (prop, lv["name"]))
            continue
        r = explore.explore(modname, lv, budget, nproc=args.nproc, seed=seed,
                            sample_every=lv.get("sample_every", 10 if tier == "quick" else 25), dumpdir=dumpdir)
        total.add(r.stats)
        all_labels |= r.labels
        functions |= r.functions
        rep = {"level": lv["name"], "params": lv, "complete": r.complete, "paths": r.stats.paths,
               "infeasible": r.stats.infeasible, "violating_paths": r.stats.violations, "queries": r.stats.queries,
               "solver_time_s": round(r.stats.solver_time, 3), "decisions": r.stats.decisions,
               "implied": r.stats.implied, "unknown": r.stats.unknown, "realised": r.stats.realised,
               "wall_s": round(r.wall, 2), "frontier_left": r.leftover, "max_depth": r.stats.max_depth}
        level_reports.append(rep)
        print("[%s] level %-14s %s paths=%d viol=%d queries=%d solver=%.1fs wall=%.1fs%s" % (
            prop, lv["name"], "complete" if r.complete else "PARTIAL(frontier %d)" % r.leftover, r.stats.paths,
            r.stats.violations, r.stats.queries, r.stats.solver_time, r.wall,
            " unknown=%d" % r.stats.unknown if r.stats.unknown else ""))
        if r.fatal:
            engine_errors.append("fatal in level %s: %s" % (lv["name"], r.fatal[-1500:]))
        for e in r.errors:
            engine_errors.append("level %s: %s" % (lv["name"], e["error"]))
        for v in r.violations:
            candidates.append((lv, v))
        for s in r.samples:
            samples.append((lv, s))

    # ---- counterexamples: replay on the pristine code before reporting ---------------
    by_label = {}
    for lv, v in candidates:
        by_label.setdefault(v["label"], []).append((lv, v))
    to_replay = []
    for label, items in sorted(by_label.items()):
        items.sort(key=lambda it: len(it[1]["trace"]))
        for lv, v in items[:3]:
            to_replay.append((label, lv, v))
    scen = [scenario_of(prop, modname, lv, v, label, v.get("detail")) for (label, lv, v) in to_replay]
    results = run_replays(scen) if scen else []
    os.makedirs(os.path.join(HERE, "replays"), exist_ok=True)
    reproduced = {}
    not_reproduced = []
    for (label, lv, v), sc, res in zip(to_replay, scen, results):
        if res["status"] == "violation" and res["label"] == label:
            if label not in reproduced:
                h = hashlib.sha1(json.dumps(sc, sort_keys=True).encode()).hexdigest()[:10]
                path = os.path.join(HERE, "replays", "%s-%s.json" % (prop, h))
                with open(path, "w") as f:
                    json.dump(sc, f, indent=1, sort_keys=True)
                reproduced[label] = (path, res.get("detail") or v.get("detail"))
        else:
            not_reproduced.append((label, res["status"], res.get("label"), res.get("detail")))
    unconfirmed = [l for l in by_label if l not in reproduced]

    # ---- passing paths: the encoding must say what the real stack does -----------------
    max_val = 40 if tier == "quick" else 300
    step = max(1, len(samples) // max_val)
    chosen = samples[::step][:max_val]
    vscen = [scenario_of(prop, modname, lv, s) for (lv, s) in chosen]
    vres = run_replays(vscen) if vscen else []
    validated = 0
    mismatches = []
    for (lv, s), res in zip(chosen, vres):
        if res["status"] == "ok" and res["observations"] == json.loads(json.dumps(s["observations"])):
            validated += 1
        else:
            mismatches.append({"level": lv["name"], "status": res["status"], "label": res.get("label"),
                               "detail": res.get("detail"), "inputs": s["inputs"],
                               "sym": s["observations"], "real": res.get("observations")})

    second = second_opinion(dumpdir) if dumpdir else None
    if dumpdir:
        shutil.rmtree(dumpdir, ignore_errors=True)

    # ---- verdict -----------------------------------------------------------------------
    known_hit = []
    new_viol = []
    for label, (path, detail) in sorted(reproduced.items()):
        hit = None
        for k in known:
            if fnmatch.fnmatchcase(label, k["sig"]):
                hit = k
                break
        if hit:
            known_hit.append((label, hit, path))
            n_known_paths += len(by_label[label])
        else:
            new_viol.append((label, path, detail))

    required = list(getattr(mod, "REQUIRED", []))
    missing = [l for l in required if l not in all_labels] if not args.level else []
    if missing and not all(l.get("complete") for l in level_reports):
        # the guard is only meaningful when every level ran to completion; an interrupted run says so instead
        print("[%s] note: labels not reached in this interrupted run: %s" % (prop, missing))
        missing = []
    exhaustive = bool(level_reports) and all(l.get("complete") for l in level_reports) and total.unknown == 0 and total.realised == 0
    completed = [l["level"] for l in level_reports if l.get("complete")]

    for label, hit, path in known_hit:
        print("KNOWN-FINDING: property=%s %s [label %s, %d violating paths, replay %s]" % (
            prop, hit["what"], label, len(by_label[label]), os.path.relpath(path, HERE)))
    for label, path, detail in new_viol:
        print("[%s] counterexample reproduced on the pristine code: %s -- %s" % (prop, label, detail))
        print("VIOLATION property=%s replay=%s" % (prop, path))
    for e in engine_errors[:5]:
        print("[%s] ENGINE-ERROR %s" % (prop, e))
    for nr in not_reproduced[:5]:
        print("[%s] counterexample did NOT reproduce (encoding problem, not a finding): %s" % (prop, (nr,)))
    for m in mismatches[:3]:
        print("[%s] validation mismatch symbolic vs pristine: %s" % (prop, json.dumps(m)[:1500]))
    if missing:
        print("[%s] vacuity guard: labels never reached: %s" % (prop, missing))
    if second:
        print("[%s] second opinions on %d dumped queries: %s" % (prop, second["queries"], json.dumps(second["solvers"])))
        for dsg in second["disagreements"][:3]:
            print("[%s] SOLVER DISAGREEMENT %s" % (prop, dsg))
    if total.unknown:
        print("[%s] INCONCLUSIVE solver answers: %d (reported, never counted as success)" % (prop, total.unknown))

    wall = time.time() - t_start
    if not args.no_evidence:
        ev = {
            "property_id": prop, "tier": tier, "seed": seed, "level": "model_checking",
            "coverage": {
                "states": total.paths, "transitions": total.decisions + total.implied,
                "traces_validated_against_impl": validated,
                "samples": [{"level": lv["name"], "inputs": s["inputs"], "observations": s["observations"]} for (lv, s) in chosen[:3]]
                or [{"level": lv["name"], "label": v["label"], "inputs": v["inputs"]} for (lv, v) in candidates[:3]],
                "exhaustive": exhaustive,
                "explanation": "bounded symbolic execution of the repository's own source (import hook, proxies for bytes) "
                               "with z3 deciding every branch and every assertion; each state is one fully explored path "
                               "= one class of inputs/histories sharing all comparison outcomes",
                "levels": level_reports, "completed_levels": completed,
                "functions_encoded": sorted(functions), "functions_targeted": getattr(mod, "FUNCTIONS", []),
                "queries": total.queries, "solver_time_s": round(total.solver_time, 3),
                "decisions_forked": total.decisions, "branches_implied": total.implied,
                "atom_table_hits": total.atom_hits, "assertions_evaluated": total.checks,
                "unknown": total.unknown, "realised_paths": total.realised, "infeasible_paths": total.infeasible,
                "violating_paths": total.violations, "labels_reached": sorted(all_labels),
                "counterexamples_replayed": len(results), "counterexamples_reproduced": len(reproduced),
                "known_findings_matched": [{"label": l, "what": h["what"], "paths": len(by_label[l])} for l, h, _ in known_hit],
                "validation_mismatches": len(mismatches), "shim_selftests": st,
                "outside_bounds": getattr(mod, "OUTSIDE", []), "stubs": DEFAULT_STUBS + list(getattr(mod, "STUBS_EXTRA", [])),
                "solver": "z3 %s (python API), QF_BV+LIA" % __import__("z3").get_version_string(),
                "second_opinion": second,
                "repo": repo_state(),
            },
            "assumptions": getattr(mod, "ASSUMPTIONS", []) + DEFAULT_ASSUMPTIONS,
            "wall_s": round(wall, 2),
            "violations": len(new_viol),
        }
        os.makedirs(os.path.join(HERE, "evidence"), exist_ok=True)
        with open(os.path.join(HERE, "evidence", "%s.json" % prop), "w") as f:
            json.dump(ev, f, indent=1, sort_keys=True, default=str)

    print("[%s] paths=%d decisions=%d queries=%d solver=%.1fs validated=%d/%d exhaustive=%s completed=%s wall=%.1fs" % (
        prop, total.paths, total.decisions, total.queries, total.solver_time, validated, len(chosen), exhaustive,
        completed, wall))
    if new_viol:
        return 1
    if engine_errors or not_reproduced or unconfirmed or mismatches or missing:
        return 2
    if second and second["disagreements"]:
        return 2
    if total.paths == 0:
        return 2
    return 0


DEFAULT_STUBS = [
    "struct.pack/unpack -> symx.shims.struct_shim (byte-level, native layout derived from struct.calcsize; differential self-test)",
    "builtin bytearray in MemoryStorage -> list-backed SymByteArray (self-test vs bytearray)",
    "open/os.path/os.makedirs in traph.py -> in-memory file system symx.shims.fs_shim",
    "mmap.mmap -> slice view over a shim file",
    "re.compile().search -> real re on concrete subjects, backtracking matcher over re._parser tree on symbolic subjects (self-test vs re)",
    "bytes.join / % formatting call sites rewritten to proxy-aware helpers that fall through to the original operation",
]

DEFAULT_ASSUMPTIONS = [
    "claims hold only inside the stated bounds (pool shape, stem payload length, history length) of each completed level",
    "z3 is trusted for unsat answers; sat answers are replayed on the pristine code before being reported",
    "the proxies/shims model CPython bytes, struct, bytearray, re as checked by the self-tests and per-path validation replays",
    "real OS file, mmap and durability behaviour is outside the claim (in-memory file system); replays use real files",
]


if __name__ == "__main__":
    sys.exit(main())
