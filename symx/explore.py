"""Parallel exhaustive exploration of a harness: stateless DFS over decision
prefixes, work split over a process pool (each task explores a bounded number
of paths below a prefix and hands the rest of its frontier back)."""
import importlib
import multiprocessing as mp
import os
import random
import sys
import time
import traceback
import warnings

_H = {}


def _load_harness(modname):
    m = _H.get(modname)
    if m is None:
        m = _H[modname] = importlib.import_module(modname)
    return m


def _profile_functions(fn):
    """run fn() once under sys.setprofile; -> sorted repo functions entered"""
    seen = set()
    repo = os.path.realpath(os.environ.get("SYMX_REPO", "/repo"))

    def prof(frame, event, arg):
        if event == "call":
            f = frame.f_code.co_filename
            if f.startswith(repo):
                seen.add("%s:%s" % (os.path.relpath(f, repo), frame.f_code.co_qualname if hasattr(frame.f_code, "co_qualname") else frame.f_code.co_name))
    sys.setprofile(prof)
    try:
        r = fn()
    finally:
        sys.setprofile(None)
    return r, sorted(seen)


def _task(args):
    (modname, params, prefixes, max_paths, max_seconds, sample_every, seed, profile, timeout_ms, dumpdir) = args
    from symx import core
    from symx.api import SymAPI
    warnings.simplefilter("ignore")
    sys.setrecursionlimit(10000)
    try:
        mod = _load_harness(modname)
        rnd = random.Random(seed)
        stats = core.Stats()
        stack = list(prefixes)
        out = {"violations": [], "samples": [], "errors": [], "labels": set(), "functions": None,
               "inconclusive": []}
        t0 = time.time()
        n = 0
        while stack and n < max_paths and time.time() - t0 < max_seconds:
            prefix = stack.pop()
            want = sample_every > 0 and (rnd.random() < 1.0 / sample_every)

            def body(path, _mod=mod):
                _mod.harness(SymAPI(path, params))
            if profile and n == 0:
                res, funcs = _profile_functions(lambda: core.run_path(body, prefix, stats, want_model=True, seed=seed, timeout_ms=timeout_ms))
                out["functions"] = funcs
                want = True
            else:
                dump = None
                if dumpdir and n % 10 == 1:
                    dump = (dumpdir, 2)
                res = core.run_path(body, prefix, stats, want_model=want, seed=seed, timeout_ms=timeout_ms, dump=dump)
            n += 1
            alts = res.pending
            if seed:
                rnd.shuffle(alts)
            stack.extend(alts)
            out["labels"] |= res.labels
            if res.status == "infeasible":
                stats.infeasible += 1
            elif res.status == "error":
                out["errors"].append({"error": res.error, "trace": res.trace})
            else:
                stats.paths += 1
                stats.max_depth = max(stats.max_depth, res.depth)
                if res.status == "violation":
                    stats.violations += 1
                    out["violations"].append({"label": res.label, "detail": res.detail, "trace": res.trace,
                                              "inputs": res.model_inputs, "observations": res.observations})
                elif want and res.model_inputs is not None:
                    out["samples"].append({"trace": res.trace, "inputs": res.model_inputs,
                                           "observations": res.observations})
            if res.inconclusive:
                out["inconclusive"].append(res.inconclusive)
        out["stats"] = stats.as_dict()
        out["leftover"] = stack
        return out
    except BaseException:
        return {"fatal": traceback.format_exc()}


class LevelResult(object):
    def __init__(self):
        from symx import core
        self.stats = core.Stats()
        self.violations = []
        self.samples = []
        self.errors = []
        self.labels = set()
        self.functions = set()
        self.inconclusive = []
        self.complete = False
        self.wall = 0.0
        self.leftover = 0
        self.fatal = None


def explore(modname, params, budget_s, nproc=None, sample_every=10, seed=0, max_violations=200,
            chunk_paths=150, chunk_seconds=8.0, timeout_ms=20000, max_samples=400, dumpdir=None):
    """Explore every feasible path of `modname.harness` under `params`.
    Returns a LevelResult; .complete is True iff the whole tree was explored."""
    nproc = nproc or min(16, os.cpu_count() or 1)
    res = LevelResult()
    t0 = time.time()
    ctx = mp.get_context("fork")
    pool = ctx.Pool(nproc)
    try:
        queue = [[]]
        outstanding = []
        first = True
        ntask = 0
        while queue or outstanding:
            # submit
            while queue and len(outstanding) < nproc * 2:
                # hand out several prefixes per task once the frontier is wide
                k = 1 if len(queue) < nproc * 4 else min(8, len(queue) // (nproc * 2))
                batch = [queue.pop() for _ in range(k)]
                ntask += 1
                small = len(outstanding) + len(queue) < nproc
                args = (modname, params, batch, 12 if small else chunk_paths, 2.0 if small else chunk_seconds,
                        (1 if ntask <= 6 else sample_every) if len(res.samples) < max_samples else 0, (seed * 1000003 + ntask) if seed else 0,
                        first, timeout_ms, dumpdir if ntask % 3 == 1 else None)
                first = False
                outstanding.append(pool.apply_async(_task, (args,)))
            # collect
            done = [a for a in outstanding if a.ready()]
            if not done:
                time.sleep(0.005)
                if time.time() - t0 > budget_s:
                    break
                continue
            for a in done:
                outstanding.remove(a)
                r = a.get()
                if "fatal" in r:
                    res.fatal = r["fatal"]
                    queue = []
                    break
                from symx import core
                st = core.Stats()
                for f, v in r["stats"].items():
                    setattr(st, f, v)
                res.stats.add(st)
                res.violations.extend(r["violations"][:max(0, max_violations - len(res.violations))])
                if len(res.samples) < max_samples:
                    res.samples.extend(r["samples"])
                res.errors.extend(r["errors"][:5])
                res.labels |= r["labels"]
                res.inconclusive.extend(r["inconclusive"][:3])
                if r["functions"]:
                    res.functions |= set(r["functions"])
                queue.extend(r["leftover"])
            if res.fatal:
                break
            if time.time() - t0 > budget_s:
                break
        res.leftover = len(queue) + len(outstanding)
        res.complete = (not queue) and (not outstanding) and not res.fatal and not res.errors
    finally:
        pool.terminate()
        pool.join()
    res.wall = time.time() - t0
    return res
