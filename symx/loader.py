"""Import hook: loads `traph.*` from the repository's *current working tree*
with two call-site rewrites and an import redirection, so that the unmodified
source runs on proxy values.

  X.join(Y)  ->  __symx_join__(X, Y)     (bytes.join / str.join are C slots)
  A % B      ->  __symx_mod__(A, B)      (bytes/str formatting is a C slot)
  import struct|mmap|re|os   -> symx.shims.*   (inside traph.* only)
  names open / bytearray pre-seeded in module globals

Both rewritten operations fall through to the original one when no proxy is
involved, so concrete behaviour is unchanged."""
import ast
import importlib.abc
import importlib.util
import os
import sys

from symx import core
from symx.core import SymBytes, SymInt, SymBool, Unsupported, _items_of

REPO = os.environ.get("SYMX_REPO", "/repo")

SHIMS = {
    "struct": "symx.shims.struct_shim",
    "mmap": "symx.shims.mmap_shim",
    "re": "symx.shims.re_shim",
    "os": "symx.shims.fs_shim",
}


def __symx_join__(sep, seq):
    if isinstance(sep, (bytes, bytearray, SymBytes)):
        seq = list(seq)
        if isinstance(sep, SymBytes) or any(isinstance(x, SymBytes) for x in seq):
            return SymBytes(_items_of(sep)).join(seq)
        return sep.join(seq)
    if isinstance(sep, str):
        seq = list(seq)
        from symx import symstr
        if any(isinstance(x, symstr.SymStr) for x in seq):
            return symstr.SymStr(tuple(ord(c) for c in sep)).join(seq)
        return sep.join(seq)
    return sep.join(seq)


def _has_proxy(x):
    if isinstance(x, (SymBytes, SymInt, SymBool)):
        return True
    if isinstance(x, (tuple, list)):
        return any(_has_proxy(y) for y in x)
    if isinstance(x, dict):
        return any(_has_proxy(y) for y in x.values())
    from symx import symstr
    return isinstance(x, symstr.SymStr)


def __symx_mod__(a, b):
    if isinstance(a, (str, bytes)) and _has_proxy(b):
        from symx import symstr
        return symstr.format_mod(a, b)
    return a % b


class _Rewriter(ast.NodeTransformer):
    def visit_Call(self, node):
        self.generic_visit(node)
        f = node.func
        if isinstance(f, ast.Attribute) and f.attr == "join" and len(node.args) == 1 and not node.keywords:
            return ast.copy_location(
                ast.Call(func=ast.Name(id="__symx_join__", ctx=ast.Load()), args=[f.value, node.args[0]], keywords=[]),
                node)
        return node

    def visit_BinOp(self, node):
        self.generic_visit(node)
        if isinstance(node.op, ast.Mod):
            return ast.copy_location(
                ast.Call(func=ast.Name(id="__symx_mod__", ctx=ast.Load()), args=[node.left, node.right], keywords=[]),
                node)
        return node

    def visit_Import(self, node):
        out = []
        for alias in node.names:
            if alias.name in SHIMS:
                out.append(ast.copy_location(
                    ast.Import(names=[ast.alias(name=SHIMS[alias.name], asname=None)]), node))
                # bind the public name:  <as> = sys.modules[shim]
                target = alias.asname or alias.name
                out.append(ast.copy_location(ast.Assign(
                    targets=[ast.Name(id=target, ctx=ast.Store())],
                    value=ast.Subscript(
                        value=ast.Attribute(value=ast.Name(id="__symx_sys__", ctx=ast.Load()), attr="modules", ctx=ast.Load()),
                        slice=ast.Constant(value=SHIMS[alias.name]), ctx=ast.Load())), node))
            else:
                out.append(ast.copy_location(ast.Import(names=[alias]), node))
        return out

    def visit_ImportFrom(self, node):
        if node.level == 0 and node.module in SHIMS:
            return ast.copy_location(ast.ImportFrom(module=SHIMS[node.module], names=node.names, level=0), node)
        if node.level == 0 and node.module and node.module.split(".")[0] in SHIMS and node.module != "os.path":
            raise Unsupported("import from %s" % node.module)
        return node


class _Loader(importlib.abc.Loader):
    def __init__(self, path, is_pkg):
        self.path = path
        self.is_pkg = is_pkg

    def create_module(self, spec):
        return None

    def exec_module(self, module):
        with open(self.path, "rb") as f:
            src = f.read()
        tree = ast.parse(src, self.path)
        tree = _Rewriter().visit(tree)
        ast.fix_missing_locations(tree)
        code = compile(tree, self.path, "exec")
        g = module.__dict__
        g["__symx_join__"] = __symx_join__
        g["__symx_mod__"] = __symx_mod__
        g["__symx_sys__"] = sys
        from symx.shims import fs_shim, builtins_shim
        g["open"] = fs_shim.open_
        g["bytearray"] = builtins_shim.bytearray_
        g["isinstance"] = builtins_shim.isinstance_
        if module.__name__ == "traph.helpers":
            from symx import symstr
            g["int"] = symstr.int_
        exec(code, g)
        if module.__name__ == "traph.helpers":
            from symx import symstr
            symstr.patch_helpers(module)


class Finder(importlib.abc.MetaPathFinder):
    def __init__(self, repo):
        self.repo = repo

    def find_spec(self, fullname, path=None, target=None):
        if fullname != "traph" and not fullname.startswith("traph."):
            return None
        rel = fullname.split(".")
        base = os.path.join(self.repo, *rel)
        if os.path.isdir(base) and os.path.isfile(os.path.join(base, "__init__.py")):
            p = os.path.join(base, "__init__.py")
            spec = importlib.util.spec_from_loader(fullname, _Loader(p, True), origin=p, is_package=True)
            spec.submodule_search_locations = [base]
            return spec
        if os.path.isfile(base + ".py"):
            p = base + ".py"
            return importlib.util.spec_from_loader(fullname, _Loader(p, False), origin=p)
        return None


_installed = False


def install(repo=None):
    """Make `import traph` load the instrumented working tree of the repo."""
    global _installed
    if _installed:
        return
    for k in list(sys.modules):
        if k == "traph" or k.startswith("traph."):
            raise RuntimeError("traph was imported before the hook was installed")
    sys.meta_path.insert(0, Finder(repo or REPO))
    _installed = True


def loaded_files():
    out = []
    for k, m in sorted(sys.modules.items()):
        if k == "traph" or k.startswith("traph."):
            out.append(getattr(m, "__file__", None) or getattr(getattr(m, "__spec__", None), "origin", k))
    return out
