"""symx.core -- proxy-object symbolic execution with z3 deciding every branch.

A *path* is one run of a harness function.  Every time the program under test
(or the oracle) turns a symbolic condition into a Python bool the engine asks
z3 which outcomes are feasible under the path condition, takes one and queues
the other.  Paths are re-executed from scratch with a recorded decision prefix
(stateless DFS, as KLEE/CrossHair do).  Property assertions are decision points
whose false side ends the path with a violation and a model.
"""
import sys
import time
import z3

# ----------------------------------------------------------------------------
# exceptions steering a path (BaseException so `except Exception` in the code
# under test never swallows them)


class PathEnd(BaseException):
    pass


class Infeasible(PathEnd):
    """an assumption made the path condition unsatisfiable"""


class ViolationFound(PathEnd):
    def __init__(self, label, detail=None):
        PathEnd.__init__(self, label)
        self.label = label
        self.detail = detail


class EngineError(BaseException):
    """non-determinism or an engine limitation: the run is inconclusive"""


class Unsupported(EngineError):
    pass


# ----------------------------------------------------------------------------
# the current path context (one per process)

CUR = None


def cur():
    if CUR is None:
        raise EngineError("no active symbolic path")
    return CUR


class Stats(object):
    FIELDS = (
        "paths", "infeasible", "violations", "queries", "solver_time", "decisions",
        "implied", "atom_hits", "trivial", "unknown", "realised", "checks",
        "checks_symbolic", "max_depth",
    )

    def __init__(self):
        for f in self.FIELDS:
            setattr(self, f, 0)

    def add(self, other):
        for f in self.FIELDS:
            if f == "max_depth":
                self.max_depth = max(self.max_depth, other.max_depth)
            else:
                setattr(self, f, getattr(self, f) + getattr(other, f))

    def as_dict(self):
        return dict((f, getattr(self, f)) for f in self.FIELDS)


# prefix entries: (kind, value) with kind in
#   'd' decided by fork (added to the solver)     value 0/1
#   'i' implied by the path condition             value 0/1
#   'c' n-ary free choice                          value k
#   'r' realisation of a symbolic value            value concrete int


class Path(object):
    def __init__(self, prefix, stats, seed=0, timeout_ms=20000):
        self.prefix = prefix
        self.stats = stats
        self.trace = []          # entries as in prefix, grown past it
        self.pending = []        # alternative prefixes discovered on this path
        self.solver = z3.Solver()
        self.solver.set("timeout", timeout_ms)
        self.atoms = {}          # z3 ast id -> bool (kept alive by self._keep)
        self._keep = []
        self.model = None        # a model of the current path condition, if known
        self.inputs = []         # (kind, name, value) declared by the harness
        self.observations = []   # (label, value) recorded by the harness
        self.byte_excl = {}      # ast id of a byte variable -> set of excluded ints
        self.byte_dom = {}       # ast id of a byte variable -> frozenset of allowed ints
        self.nvars = 0
        self.order = {}          # ast id of a declared variable -> declaration number
        self.seed = seed
        self.inconclusive = None
        self.realised = 0
        self.labels_reached = set()
        self.soft = []           # deviations recorded without ending the path
        self.dump = None         # (directory, remaining) for second-opinion SMT-LIB2 dumps
        self.random = None       # random.Random: probe mode (Knuth's tree-size estimator), no alternatives queued
        self.weight = 1.0

    # -- solver plumbing ------------------------------------------------------
    def _check(self, *extra):
        t0 = time.perf_counter()
        r = self.solver.check(*extra)
        self.stats.solver_time += time.perf_counter() - t0
        self.stats.queries += 1
        return r

    def _ensure_model(self):
        if self.model is None:
            r = self._check()
            if r == z3.sat:
                self.model = self.solver.model()
            elif r == z3.unsat:
                raise Infeasible()
            else:
                self.stats.unknown += 1
                self.inconclusive = "solver unknown on path condition"
                raise Infeasible()
        return self.model

    def _add(self, expr):
        self.solver.add(expr)

    def _record_atom(self, expr, value):
        self.atoms[expr.get_id()] = value
        self._keep.append(expr)
        if z3.is_not(expr):
            c = expr.arg(0)
            self.atoms[c.get_id()] = not value
            self._keep.append(c)
        elif value and z3.is_and(expr):
            for c in expr.children():
                self._record_atom(c, True)
        elif (not value) and z3.is_or(expr):
            for c in expr.children():
                self._record_atom(c, False)

    def _lookup(self, expr):
        v = self.atoms.get(expr.get_id())
        if v is not None:
            return v
        if z3.is_not(expr):
            v = self.atoms.get(expr.arg(0).get_id())
            if v is not None:
                return not v
        return None

    # -- the decision procedure ----------------------------------------------
    def decide(self, expr, prefer=None):
        """Return a Python bool for the z3 Bool `expr` under the path condition."""
        if z3.is_true(expr):
            self.stats.trivial += 1
            return True
        if z3.is_false(expr):
            self.stats.trivial += 1
            return False
        v = self._lookup(expr)
        if v is not None:
            self.stats.atom_hits += 1
            return v
        idx = len(self.trace)
        if idx < len(self.prefix):
            kind, val = self.prefix[idx]
            if kind not in ("d", "i"):
                raise EngineError("non-deterministic replay: expected %r at %d, got a branch" % (kind, idx))
            val = bool(val)
            if kind == "d":
                self._add(expr if val else z3.Not(expr))
                self.model = None
            self.trace.append((kind, int(val)))
            self._record_atom(expr, val)
            return val
        # frontier
        m = self._ensure_model()
        mv = z3.is_true(m.eval(expr, model_completion=True))
        other = z3.Not(expr) if mv else expr
        self.solver.push()
        self.solver.add(other)
        r = self._check()
        if self.dump is not None and self.dump[1] > 0 and r != z3.unknown:
            self._dump_query(str(r))
        self.solver.pop()
        if r == z3.unsat:
            self.stats.implied += 1
            self.trace.append(("i", int(mv)))
            self._record_atom(expr, mv)
            return mv
        if r != z3.sat:
            self.stats.unknown += 1
            self.inconclusive = "solver unknown on a branch"
        # both sides feasible (or unknown: explore both, result marked inconclusive)
        self.stats.decisions += 1
        take = mv
        if prefer is not None and prefer != mv:
            take = prefer
        if self.random is not None:
            take = self.random.random() < 0.5
            self.weight *= 2.0
        else:
            self.pending.append(list(self.trace) + [("d", int(not take))])
        self.trace.append(("d", int(take)))
        self._add(expr if take else z3.Not(expr))
        if take != mv:
            self.model = None
        self._record_atom(expr, take)
        return take

    def choose(self, n):
        """n-ary free choice (no solver involved)."""
        if n <= 0:
            raise Infeasible()
        if n == 1:
            return 0
        idx = len(self.trace)
        if idx < len(self.prefix):
            kind, val = self.prefix[idx]
            if kind != "c":
                raise EngineError("non-deterministic replay: expected %r at %d, got a choice" % (kind, idx))
            self.trace.append(("c", val))
            return val
        if self.random is not None:
            k = self.random.randrange(n)
            self.weight *= n
            self.trace.append(("c", k))
            return k
        for k in range(n - 1, 0, -1):
            self.pending.append(list(self.trace) + [("c", k)])
        self.trace.append(("c", 0))
        self.stats.decisions += 1
        return 0

    def assume(self, expr):
        if expr is True:
            return
        if expr is False:
            raise Infeasible()
        if isinstance(expr, SymBool):
            expr = expr.e
        if z3.is_true(expr):
            return
        if z3.is_false(expr):
            raise Infeasible()
        v = self._lookup(expr)
        if v is True:
            return
        if v is False:
            raise Infeasible()
        self._add(expr)
        self._record_atom(expr, True)
        if self.model is not None:
            if not z3.is_true(self.model.eval(expr, model_completion=True)):
                self.model = None
        if len(self.trace) >= len(self.prefix):
            self._ensure_model()

    def realise_int(self, expr, lo=None, hi=None):
        """Fork over every feasible value of an integer/bit-vector term."""
        idx = len(self.trace)
        if idx < len(self.prefix):
            kind, val = self.prefix[idx]
            if kind != "r":
                raise EngineError("non-deterministic replay: expected %r at %d, got a realisation" % (kind, idx))
            self.trace.append(("r", val))
            self._add(expr == val)
            self.model = None
            return val
        m = self._ensure_model()
        v = m.eval(expr, model_completion=True).as_long()
        # is another value feasible?
        self.solver.push()
        self.solver.add(expr != v)
        r = self._check()
        self.solver.pop()
        if r == z3.unsat:
            self.trace.append(("r", v))
            return v
        # enumerate the remaining values lazily: queue "not v" as a pseudo-branch
        vals = [v]
        self.solver.push()
        self.solver.add(expr != v)
        while True:
            r = self._check()
            if r != z3.sat:
                if r != z3.unsat:
                    self.stats.unknown += 1
                    self.inconclusive = "solver unknown while realising"
                break
            w = self.solver.model().eval(expr, model_completion=True).as_long()
            vals.append(w)
            self.solver.add(expr != w)
            if len(vals) > 4096:
                self.solver.pop()
                raise Unsupported("realisation of a value with more than 4096 feasible values")
        self.solver.pop()
        self.stats.realised += 1
        self.realised += 1
        for w in vals[1:]:
            self.pending.append(list(self.trace) + [("r", w)])
        self.trace.append(("r", v))
        self._add(expr == v)
        return v

    def _dump_query(self, answer):
        """write the query just decided as SMT-LIB2 (for /usr/bin/z3 and cvc5 as second opinions)"""
        import os
        d, left = self.dump
        self.dump = (d, left - 1)
        name = os.path.join(d, "q-%d-%d-%s.smt2" % (os.getpid(), self.stats.queries, answer))
        with open(name, "w") as f:
            f.write("; expected: %s\n(set-logic ALL)\n" % answer)
            f.write(self.solver.to_smt2())

    # -- harness-facing helpers ------------------------------------------------
    def fresh_byte(self, name, exclude=(), domain=None):
        self.nvars += 1
        v = z3.BitVec("%s" % name, 8)
        self.order[v.get_id()] = self.nvars
        self._keep.append(v)
        if domain is not None:
            dom = frozenset(domain)
            self.byte_dom[v.get_id()] = dom
            self._keep.append(v)
            self._add(z3.Or([v == d for d in sorted(dom)]))
        elif exclude:
            ex = set(exclude)
            self.byte_excl[v.get_id()] = ex
            self._keep.append(v)
            for x in sorted(ex):
                self._add(v != x)
        return v

    def final_model(self):
        r = self._check()
        if r == z3.sat:
            return self.solver.model()
        return None


# ----------------------------------------------------------------------------
# symbolic booleans


def _mk_bool(e):
    if e is True or e is False:
        return e
    if z3.is_true(e):
        return True
    if z3.is_false(e):
        return False
    return SymBool(e)


def z3of(b):
    if b is True:
        return z3.BoolVal(True)
    if b is False:
        return z3.BoolVal(False)
    if isinstance(b, SymBool):
        return b.e
    if isinstance(b, bool):
        return z3.BoolVal(bool(b))
    raise TypeError("not a boolean: %r" % (b,))


def s_and(*xs):
    out = []
    for x in xs:
        if x is True:
            continue
        if x is False:
            return False
        if isinstance(x, SymBool):
            out.append(x.e)
        elif not x:
            return False
    if not out:
        return True
    if len(out) == 1:
        return SymBool(out[0])
    return SymBool(z3.And(out))


def s_or(*xs):
    out = []
    for x in xs:
        if x is False:
            continue
        if x is True:
            return True
        if isinstance(x, SymBool):
            out.append(x.e)
        elif x:
            return True
    if not out:
        return False
    if len(out) == 1:
        return SymBool(out[0])
    return SymBool(z3.Or(out))


def s_not(x):
    if isinstance(x, SymBool):
        if z3.is_not(x.e):
            return SymBool(x.e.arg(0))
        return SymBool(z3.Not(x.e))
    return not x


def s_implies(a, b):
    return s_or(s_not(a), b)


class SymBool(object):
    __slots__ = ("e",)

    def __init__(self, e):
        self.e = e

    def __bool__(self):
        return cur().decide(self.e)

    def __and__(self, o):
        return s_and(self, o)

    __rand__ = __and__

    def __or__(self, o):
        return s_or(self, o)

    __ror__ = __or__

    def __invert__(self):
        return s_not(self)

    def __eq__(self, o):
        if isinstance(o, SymBool):
            return _mk_bool(self.e == o.e)
        if isinstance(o, bool):
            return self if o else s_not(self)
        return NotImplemented

    def __ne__(self, o):
        r = self.__eq__(o)
        if r is NotImplemented:
            return r
        return s_not(r)

    __hash__ = None

    def __repr__(self):
        return "<SymBool %s>" % (self.e.sexpr()[:80],)


# ----------------------------------------------------------------------------
# symbolic byte strings: concrete length, items are ints or z3 BitVec(8) terms


def _is_sym(x):
    return not isinstance(x, int)


def byte_eq(a, b):
    """a == b for items (int or BitVec(8)); returns True/False/z3 Bool."""
    if a is b:
        return True
    ia = isinstance(a, int)
    ib = isinstance(b, int)
    if ia and ib:
        return a == b
    if ia:
        a, b, ib = b, a, True
    # a symbolic
    p = CUR
    if p is not None:
        if ib:
            ex = p.byte_excl.get(a.get_id())
            if ex is not None and b in ex:
                return False
            dom = p.byte_dom.get(a.get_id())
            if dom is not None and b not in dom:
                return False
        else:
            da = p.byte_dom.get(a.get_id())
            db = p.byte_dom.get(b.get_id())
            if da is not None and db is not None and not (da & db):
                return False
    if ib:
        return a == b
    if a.get_id() == b.get_id():
        return True
    # canonical, run-independent argument order so that the atom table sees one
    # literal (AST ids depend on allocation history and must not influence the trace)
    if _order_key(a) > _order_key(b):
        a, b = b, a
    return a == b


def _order_key(x):
    p = CUR
    if p is not None:
        k = p.order.get(x.get_id())
        if k is not None:
            return (0, k, "")
    return (1, 0, x.sexpr())


def byte_lt(a, b):
    ia = isinstance(a, int)
    ib = isinstance(b, int)
    if ia and ib:
        return a < b
    p = CUR
    if p is not None:
        if ia and not ib:
            dom = p.byte_dom.get(b.get_id())
            if dom is not None:
                if a < min(dom):
                    return True
                if a >= max(dom):
                    return False
        if ib and not ia:
            dom = p.byte_dom.get(a.get_id())
            if dom is not None:
                if max(dom) < b:
                    return True
                if min(dom) >= b:
                    return False
    if ia:
        if a == 255:
            return False
        return z3.ULT(z3.BitVecVal(a, 8), b)
    if ib:
        if b == 0:
            return False
        return z3.ULT(a, z3.BitVecVal(b, 8))
    if a.get_id() == b.get_id():
        return False
    return z3.ULT(a, b)


WIDE_COMPARE = 12
HASH_BY_CONTENT = False      # set per path by harnesses whose LRUs are all concrete


def _bv8(x):
    return z3.BitVecVal(x, 8) if isinstance(x, int) else x


def _case(it, lo, hi, delta):
    """ASCII case mapping of one item (bytes.lower / bytes.upper semantics)"""
    if isinstance(it, int):
        return it + delta if lo <= it <= hi else it
    p = CUR
    if p is not None:
        dom = p.byte_dom.get(it.get_id())
        if dom is not None and not any(lo <= d <= hi for d in dom):
            return it
    return z3.If(z3.And(z3.UGE(it, z3.BitVecVal(lo, 8)), z3.ULE(it, z3.BitVecVal(hi, 8))),
                 it + z3.BitVecVal(delta % 256, 8), it)


def _z(x):
    if x is True:
        return z3.BoolVal(True)
    if x is False:
        return z3.BoolVal(False)
    return x


def _items_of(x):
    if isinstance(x, SymBytes):
        return x.items
    if isinstance(x, (bytes, bytearray)):
        return tuple(x)
    if type(x).__name__ == "SymByteArray":      # the bytearray stand-in of symx.shims.builtins_shim
        return tuple(x.buf)
    return None


class SymBytes(object):
    """A byte string of concrete length whose bytes may be symbolic."""

    __slots__ = ("items",)
    _kind = "bytes"
    _conv = staticmethod(_items_of)

    def __init__(self, items=()):
        if isinstance(items, (bytes, bytearray)):
            items = tuple(items)
        elif not isinstance(items, tuple):
            items = tuple(items)
        self.items = items

    # -- structure -------------------------------------------------------------
    def __len__(self):
        return len(self.items)

    def __bool__(self):
        return len(self.items) > 0

    def __hash__(self):
        # length only: equality is decided by __eq__ (a solver-decided fork).  In fully concrete
        # levels (every byte string of the run is concrete) the hash is the one of the real bytes,
        # so keys the code builds itself (e.g. by encoding a str) meet the proxies in one dict.
        if HASH_BY_CONTENT and self._kind == "bytes" and self.is_concrete():
            return hash(bytes(self.items))
        return hash(("symbytes", len(self.items)))

    def __iter__(self):
        for it in self.items:
            if isinstance(it, int):
                yield it
            else:
                yield SymInt.from_byte(it)

    def __getitem__(self, k):
        if isinstance(k, slice):
            return self.__class__(self.items[k])
        if isinstance(k, SymInt):
            k = k.__index__()
        it = self.items[k]
        if isinstance(it, int):
            return it
        return SymInt.from_byte(it)

    def is_concrete(self):
        for it in self.items:
            if not isinstance(it, int):
                return False
        return True

    def concrete(self):
        return bytes(self.items)

    def __add__(self, o):
        oi = self._conv(o)
        if oi is None:
            return NotImplemented
        return self.__class__(self.items + oi)

    def __radd__(self, o):
        oi = self._conv(o)
        if oi is None:
            return NotImplemented
        return self.__class__(oi + self.items)

    def __mul__(self, n):
        return self.__class__(self.items * n)

    def encode(self, *a, **k):
        # Traph.__encode: `isinstance(x, bytes)` is False for a proxy, so the
        # str branch is taken; the value is already a byte string.
        return self

    def __repr__(self):
        out = []
        for it in self.items:
            if isinstance(it, int):
                out.append(chr(it) if 32 <= it < 127 else "\\x%02x" % it)
            else:
                out.append("<%s>" % it)
        return "S'" + "".join(out) + "'"

    __str__ = __repr__

    # -- comparisons -----------------------------------------------------------
    def _eq_expr(self, oi):
        a = self.items
        if len(a) != len(oi):
            return False
        conj = []
        for x, y in zip(a, oi):
            r = byte_eq(x, y)
            if r is True:
                continue
            if r is False:
                return False
            conj.append(r)
        if not conj:
            return True
        if len(conj) == 1:
            return conj[0]
        return z3.And(conj)

    def __eq__(self, o):
        oi = self._conv(o)
        if oi is None:
            return False if o is None or isinstance(o, (str, int, tuple, list)) else NotImplemented
        return _mk_bool(self._eq_expr(oi))

    def __ne__(self, o):
        r = self.__eq__(o)
        if r is NotImplemented:
            return r
        return s_not(r)

    def _lt_expr(self, oi, strict=True):
        a = self.items
        n = min(len(a), len(oi))
        if strict:
            res = len(a) < len(oi)
        else:
            res = len(a) <= len(oi)
        nsym = 0
        for k in range(n):
            if not (isinstance(a[k], int) and isinstance(oi[k], int)):
                nsym += 1
        if nsym > WIDE_COMPARE:
            # long stems: compare the common-length prefixes as big-endian integers
            # (one comparator instead of a deep if-then-else chain)
            k0 = 0
            while k0 < n and isinstance(a[k0], int) and isinstance(oi[k0], int) and a[k0] == oi[k0]:
                k0 += 1
            if k0 < n and isinstance(a[k0], int) and isinstance(oi[k0], int):
                return a[k0] < oi[k0]
            A = z3.Concat([x if not isinstance(x, int) else z3.BitVecVal(x, 8) for x in a[k0:n]]) if n - k0 > 1 else _bv8(a[k0])
            B = z3.Concat([x if not isinstance(x, int) else z3.BitVecVal(x, 8) for x in oi[k0:n]]) if n - k0 > 1 else _bv8(oi[k0])
            if res is True:
                return z3.ULE(A, B)
            return z3.ULT(A, B)
        for k in range(n - 1, -1, -1):
            x, y = a[k], oi[k]
            e = byte_eq(x, y)
            if e is True:
                continue
            lt = byte_lt(x, y)
            if e is False:
                res = lt
                continue
            if isinstance(res, bool) and isinstance(lt, bool) and res == lt:
                continue
            res = z3.If(e, _z(res), _z(lt))
        return res

    def __lt__(self, o):
        oi = self._conv(o)
        if oi is None:
            return NotImplemented
        return _mk_bool(self._lt_expr(oi, True))

    def __le__(self, o):
        oi = self._conv(o)
        if oi is None:
            return NotImplemented
        return _mk_bool(self._lt_expr(oi, False))

    def __gt__(self, o):
        oi = self._conv(o)
        if oi is None:
            return NotImplemented
        return _mk_bool(self.__class__(oi)._lt_expr(self.items, True))

    def __ge__(self, o):
        oi = self._conv(o)
        if oi is None:
            return NotImplemented
        return _mk_bool(self.__class__(oi)._lt_expr(self.items, False))

    # -- searching (first-occurrence semantics by forking on the position) ----
    def _match_at(self, oi, pos):
        seg = self.items[pos:pos + len(oi)]
        if len(seg) != len(oi):
            return False
        return _mk_bool(self.__class__(seg)._eq_expr(oi))

    def startswith(self, prefix, start=0):
        if isinstance(prefix, tuple):
            return s_or(*[self.startswith(p, start) for p in prefix])
        oi = self._conv(prefix)
        return self._match_at(oi, start)

    def endswith(self, suffix):
        oi = self._conv(suffix)
        if len(oi) > len(self.items):
            return False
        return self._match_at(oi, len(self.items) - len(oi))

    def find(self, sub, start=0, end=None):
        oi = self._conv(sub)
        n = len(self.items) if end is None else min(end, len(self.items))
        for pos in range(start, n - len(oi) + 1):
            if self._match_at(oi, pos):   # forks when symbolic
                return pos
        return -1

    def __contains__(self, sub):
        if isinstance(sub, int):
            return bool(s_or(*[_mk_bool(byte_eq(it, sub)) for it in self.items]))
        oi = self._conv(sub)
        if oi is None:
            raise TypeError("a bytes-like object is required")
        return self.find(sub) >= 0

    def index(self, sub, start=0):
        r = self.find(sub, start)
        if r < 0:
            raise ValueError("subsection not found")
        return r

    def count(self, sub):
        oi = self._conv(sub)
        n = 0
        pos = 0
        while True:
            pos = self.find(sub, pos)
            if pos < 0:
                return n
            n += 1
            pos += max(1, len(oi))

    def replace(self, old, new, count=-1):
        oi = self._conv(old)
        ni = self._conv(new)
        if len(oi) == 0:
            raise Unsupported("replace of the empty string")
        out = ()
        pos = 0
        done = 0
        while count < 0 or done < count:
            k = self.find(old, pos)
            if k < 0:
                break
            out += self.items[pos:k] + ni
            pos = k + len(oi)
            done += 1
        out += self.items[pos:]
        return self.__class__(out)

    def split(self, sep=None, maxsplit=-1):
        if sep is None:
            raise Unsupported("split on whitespace")
        oi = self._conv(sep)
        parts = []
        pos = 0
        while maxsplit < 0 or len(parts) < maxsplit:
            k = self.find(sep, pos)
            if k < 0:
                break
            parts.append(self.__class__(self.items[pos:k]))
            pos = k + len(oi)
        parts.append(self.__class__(self.items[pos:]))
        return parts

    def join(self, seq):
        out = ()
        first = True
        for x in seq:
            xi = self._conv(x)
            if xi is None:
                raise TypeError("sequence item: expected a bytes-like object")
            if not first:
                out += self.items
            out += xi
            first = False
        return self.__class__(out)

    def lower(self):
        return self.__class__(tuple(_case(it, 65, 90, 32) for it in self.items))

    def upper(self):
        return self.__class__(tuple(_case(it, 97, 122, -32) for it in self.items))

    def decode(self, *a, **k):
        if self.is_concrete():
            return self.concrete().decode(*a, **k)
        raise Unsupported("decode() on symbolic bytes")


def wrap(x):
    """bytes -> SymBytes (identity on everything else)."""
    if isinstance(x, (bytes, bytearray)):
        return SymBytes(tuple(x))
    return x


# ----------------------------------------------------------------------------
# symbolic integers


class SymInt(object):
    """Integer proxy.  `e` is a z3 Int term (LIA) or a BitVec term (`bv` bits)."""

    __slots__ = ("e", "bv")

    def __init__(self, e, bv=0):
        self.e = e
        self.bv = bv

    @staticmethod
    def from_byte(b):
        return SymInt(b, 8)

    # coercion of the other operand
    def _co(self, o):
        if isinstance(o, SymInt):
            if o.bv != self.bv:
                if self.bv and not o.bv:
                    return z3.Int2BV(o.e, self.bv)
                if o.bv and not self.bv:
                    return z3.BV2Int(o.e)
                w = max(self.bv, o.bv)
                raise Unsupported("mixed bit-vector widths %d/%d" % (self.bv, o.bv))
            return o.e
        if isinstance(o, bool):
            o = int(o)
        if isinstance(o, int):
            if self.bv:
                if o < 0 or o >= (1 << self.bv):
                    raise Unsupported("constant %d outside the %d-bit range" % (o, self.bv))
                return z3.BitVecVal(o, self.bv)
            return z3.IntVal(o)
        return None

    def _bin(self, o, f):
        oe = self._co(o)
        if oe is None:
            return NotImplemented
        return SymInt(z3.simplify(f(self.e, oe)), self.bv)

    def _cmp(self, o, f_int, f_bv):
        oe = self._co(o)
        if oe is None:
            return NotImplemented
        if self.bv:
            return _mk_bool(z3.simplify(f_bv(self.e, oe)))
        return _mk_bool(z3.simplify(f_int(self.e, oe)))

    def __add__(self, o):
        if self.bv:
            oe = self._co(o)
            if oe is None:
                return NotImplemented
            cur().assume_no_overflow(z3.BVAddNoOverflow(self.e, oe, False))
        return self._bin(o, lambda a, b: a + b)

    __radd__ = __add__

    def __sub__(self, o):
        if self.bv:
            oe = self._co(o)
            if oe is None:
                return NotImplemented
            cur().assume_no_overflow(z3.BVSubNoUnderflow(self.e, oe, False))
        return self._bin(o, lambda a, b: a - b)

    def __rsub__(self, o):
        oe = self._co(o)
        if oe is None:
            return NotImplemented
        if self.bv:
            cur().assume_no_overflow(z3.BVSubNoUnderflow(oe, self.e, False))
        return SymInt(z3.simplify(oe - self.e), self.bv)

    def __mul__(self, o):
        if self.bv:
            oe = self._co(o)
            if oe is None:
                return NotImplemented
            cur().assume_no_overflow(z3.BVMulNoOverflow(self.e, oe, False))
        return self._bin(o, lambda a, b: a * b)

    __rmul__ = __mul__

    def __mod__(self, o):
        if self.bv:
            return self._bin(o, lambda a, b: z3.URem(a, b))
        return self._bin(o, lambda a, b: a % b)

    def __floordiv__(self, o):
        if self.bv:
            return self._bin(o, lambda a, b: z3.UDiv(a, b))
        return self._bin(o, lambda a, b: a / b)

    def __truediv__(self, o):
        return self.__index__() / o

    def __rshift__(self, o):
        if self.bv:
            return self._bin(o, lambda a, b: z3.LShR(a, b))
        if isinstance(o, int):
            return self._bin(1 << o, lambda a, b: a / b)
        return NotImplemented

    def __lshift__(self, o):
        if isinstance(o, int):
            return self.__mul__(1 << o)      # carries the no-overflow obligation
        return NotImplemented

    def __and__(self, o):
        if self.bv:
            if isinstance(o, int) and not isinstance(o, bool):
                o &= (1 << self.bv) - 1      # Python ints are unbounded: a wider mask keeps every modelled bit
            return self._bin(o, lambda a, b: a & b)
        return NotImplemented

    __rand__ = __and__

    def __or__(self, o):
        if self.bv:
            return self._bin(o, lambda a, b: a | b)
        return NotImplemented

    __ror__ = __or__

    def __eq__(self, o):
        r = self._cmp(o, lambda a, b: a == b, lambda a, b: a == b)
        if r is NotImplemented:
            return False
        return r

    def __ne__(self, o):
        r = self.__eq__(o)
        return s_not(r)

    def __lt__(self, o):
        return self._cmp(o, lambda a, b: a < b, z3.ULT)

    def __le__(self, o):
        return self._cmp(o, lambda a, b: a <= b, z3.ULE)

    def __gt__(self, o):
        return self._cmp(o, lambda a, b: a > b, z3.UGT)

    def __ge__(self, o):
        return self._cmp(o, lambda a, b: a >= b, z3.UGE)

    def __bool__(self):
        return bool(self != 0)

    __hash__ = None

    def __index__(self):
        return cur().realise_int(self.e)

    __int__ = __index__

    def __repr__(self):
        return "<SymInt %s>" % (self.e.sexpr()[:60],)


def _assume_no_overflow(self, cond):
    """Python ints do not wrap: a BV operation is only a faithful model when it
    cannot overflow; the obligation must be valid under the path condition."""
    cond = z3.simplify(cond)
    if z3.is_true(cond):
        return
    self.solver.push()
    self.solver.add(z3.Not(cond))
    r = self._check()
    self.solver.pop()
    if r != z3.unsat:
        raise Unsupported("bit-vector width too small: overflow obligation not discharged (%s)" % r)
    self.stats.implied += 1


Path.assume_no_overflow = _assume_no_overflow


# ----------------------------------------------------------------------------
# running one path


class PathResult(object):
    __slots__ = ("status", "label", "detail", "trace", "pending", "inputs", "observations",
                 "model_inputs", "inconclusive", "realised", "error", "labels", "depth", "weight")


def concretise(value, model):
    """Turn a harness value (possibly symbolic) into the JSON shape that
    symx.concrete.jsonable produces for the same concrete value."""
    if isinstance(value, SymBytes):
        out = []
        for it in value.items:
            if isinstance(it, int):
                out.append(it)
            else:
                out.append(model.eval(it, model_completion=True).as_long())
        if value._kind == "str":
            return "".join(chr(c) for c in out)
        return {"bytes": bytes(out).hex()}
    if isinstance(value, SymInt):
        return model.eval(value.e, model_completion=True).as_long()
    if isinstance(value, SymBool):
        return z3.is_true(model.eval(value.e, model_completion=True))
    if isinstance(value, (bytes, bytearray)):
        return {"bytes": bytes(value).hex()}
    if isinstance(value, (list, tuple)):
        return [concretise(v, model) for v in value]
    if isinstance(value, (set, frozenset)):
        return {"set": sorted((concretise(v, model) for v in value), key=repr)}
    if isinstance(value, dict):
        out = {}
        for k, v in value.items():
            if isinstance(k, (SymBytes, bytes, bytearray)):
                k = "b:" + concretise(k, model)["bytes"]
            else:
                k = str(k)
            out[k] = concretise(v, model)
        return out
    if isinstance(value, float) and value == int(value):
        return int(value)
    return value


def run_path(fn, prefix, stats, want_model=False, seed=0, timeout_ms=20000, dump=None, probe=None):
    """Execute harness `fn(path)` once under `prefix`."""
    global CUR
    p = Path(prefix, stats, seed=seed, timeout_ms=timeout_ms)
    p.dump = dump
    p.random = probe
    res = PathResult()
    res.label = None
    res.detail = None
    res.error = None
    res.model_inputs = None
    res.observations = None
    CUR = p
    try:
        try:
            fn(p)
            res.status = "ok"
            if p.soft:
                res.status = "violation"
                res.label, res.detail = p.soft[0]
        except Infeasible:
            res.status = "infeasible"
        except ViolationFound as v:
            res.status = "violation"
            res.label = v.label
            res.detail = v.detail
        except EngineError as e:
            res.status = "error"
            res.error = "%s: %s" % (e.__class__.__name__, e)
        except RecursionError as e:
            res.status = "error"
            res.error = "RecursionError"
        if len(p.trace) < len(p.prefix) and res.status in ("ok", "violation"):
            res.status = "error"
            res.error = "non-deterministic replay: prefix not consumed (%d/%d)" % (len(p.trace), len(p.prefix))
        if res.status in ("violation",) or (want_model and res.status == "ok"):
            m = p.final_model() if p.model is None else p.model
            if m is None:
                if res.status == "violation":
                    res.status = "error"
                    res.error = "no model for a violating path"
            else:
                res.model_inputs = [(k, n, concretise(v, m)) for (k, n, v) in p.inputs]
                res.observations = [[l, concretise(v, m)] for (l, v) in p.observations]
    finally:
        CUR = None
    res.trace = p.trace
    res.pending = p.pending
    res.inputs = None
    res.inconclusive = p.inconclusive
    res.realised = p.realised
    res.labels = p.labels_reached
    res.depth = len(p.trace)
    res.weight = p.weight
    return res
