"""Concrete replay on the pristine repository.  Runs under the repository's own
interpreter (/venv/bin/python); never imports z3 or the import hook.

  python -m symx.replay <file.json>            one scenario; exit 1 if it fails a check
  python -m symx.replay --batch <in> <out>     many scenarios -> results (validation)
"""
import importlib
import json
import os
import sys


def _scenario_inputs(inputs):
    if isinstance(inputs, dict):
        return inputs
    return dict((name, value) for (_kind, name, value) in inputs)


def run_one(sc, repo):
    from symx.concrete import run_scenario
    mod = importlib.import_module(sc["module"])
    return run_scenario(mod.harness, sc.get("params") or {}, _scenario_inputs(sc["inputs"]), repo)


def main(argv):
    repo = os.environ.get("SYMX_REPO", "/repo")
    here = os.path.dirname(os.path.dirname(os.path.abspath(__file__)))
    if here not in sys.path:
        sys.path.insert(0, here)
    if argv and argv[0] == "--batch":
        with open(argv[1]) as f:
            scs = json.load(f)
        out = [run_one(sc, repo) for sc in scs]
        with open(argv[2], "w") as f:
            json.dump(out, f)
        return 0
    with open(argv[0]) as f:
        sc = json.load(f)
    r = run_one(sc, repo)
    print("replay of %s (%s): %s label=%s" % (argv[0], sc.get("property"), r["status"], r["label"]))
    if r.get("detail"):
        print("  " + str(r["detail"]))
    if r["status"] == "violation":
        print("VIOLATION property=%s replay=%s" % (sc.get("property"), argv[0]))
        return 1
    if r["status"] != "ok":
        return 2
    return 0


if __name__ == "__main__":
    sys.exit(main(sys.argv[1:]))
