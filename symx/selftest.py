"""Engine self-test (MANIFEST.setup_cmd): shims vs the real modules, and a tiny
symbolic exploration with a known path count and a known counterexample."""
import sys
import os

HERE = os.path.dirname(os.path.dirname(os.path.abspath(__file__)))
if HERE not in sys.path:
    sys.path.insert(0, HERE)


def main():
    from symx import check, core
    from symx.api import SymAPI
    print("shims:", check.selftests())
    stats = core.Stats()
    found = []
    paths = [0]

    def h(p):
        E = SymAPI(p)
        a = E.bytes("a", 2)
        b = E.bytes("b", 2)
        if a == b:
            E.check(not (a < b), "lt-irreflexive")
        elif a < b:
            E.check(not (b < a), "lt-asymmetric")
            E.check((a + b) < (b + a), "concat-order")
        else:
            E.check(b < a, "total")
        # planted false claim: must be refuted with a model
        E.check(a.find(b"\x00") != 1, "planted")

    stack = [[]]
    while stack:
        pre = stack.pop()
        r = core.run_path(h, pre, stats, want_model=True)
        stack.extend(r.pending)
        if r.status == "violation":
            found.append((r.label, dict((n, v) for _, n, v in r.model_inputs)))
        elif r.status == "error":
            print("engine error", r.error)
            return 2
        paths[0] += 1
    labels = sorted(set(l for l, _ in found))
    print("paths=%d violations=%s" % (paths[0], labels))
    if labels != ["planted"]:
        print("self-test failed")
        return 2
    for _, m in found:
        a = bytes.fromhex(m["a"]["bytes"])
        assert a.find(b"\x00") == 1, a
    print("symx self-test ok")
    return 0


if __name__ == "__main__":
    sys.exit(main())
