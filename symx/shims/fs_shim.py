"""In-memory file system standing in for builtin open() and the few os calls
traph.py makes.  File contents are lists of items (int or symbolic byte), so
blocks written through FileStorage keep their symbolic stems.  Every write is
appended to a program-ordered log across all files (used by the torn-write
property)."""
import errno as _errno
import os as _os

from symx.core import SymBytes, SymInt, Unsupported, _items_of


class SymFS(object):
    def __init__(self):
        self.files = {}      # path -> list of items
        self.torn = {}       # path -> (SymInt r, items): the first r bytes of `items` follow the content
        self.dirs = set()
        self.log = []        # (path, offset, items, was_append)
        self.logging = True

    def reset(self):
        self.logging = True
        self.torn.clear()
        self.files.clear()
        self.dirs.clear()
        del self.log[:]


FS = SymFS()


class SymFile(object):
    def __init__(self, fs, path, mode):
        self.fs = fs
        self.path = path
        self.mode = mode
        self.pos = 0
        self.closed = False
        if mode in ("wb+", "w+b"):
            fs.torn.pop(path, None)
            fs.files[path] = []
            if fs.logging:
                fs.log.append((path, "truncate", (), False))
        elif mode in ("rb+", "r+b", "rb"):
            if path not in fs.files:
                raise IOError(_errno.ENOENT, "No such file or directory", path)
        else:
            raise Unsupported("open mode %r" % mode)

    def _buf(self, resolve=True):
        if self.closed:
            raise ValueError("I/O operation on closed file.")
        if resolve and self.path in self.fs.torn:
            # content of a torn tail is needed: fork over every feasible number of persisted bytes
            r, items = self.fs.torn.pop(self.path)
            k = r.__index__() if hasattr(r, "__index__") else int(r)
            self.fs.files[self.path].extend(items[:k])
        return self.fs.files[self.path]

    def seek(self, off, whence=0):
        if whence == 2 and self.path in self.fs.torn:
            # only the length is asked for: keep the number of torn bytes symbolic
            buf = self._buf(resolve=False)
            self.pos = self.fs.torn[self.path][0] + (len(buf) + off)
            return self.pos
        buf = self._buf()
        if whence == 0:
            self.pos = off
        elif whence == 1:
            self.pos += off
        elif whence == 2:
            self.pos = len(buf) + off
        return self.pos

    def tell(self):
        self._buf(resolve=False)
        return self.pos

    def read(self, n=-1):
        buf = self._buf()
        if isinstance(self.pos, SymInt):
            self.pos = self.pos.__index__()
        if n is None or n < 0:
            n = max(0, len(buf) - self.pos)
        seg = buf[self.pos:self.pos + n]
        self.pos += len(seg)
        return SymBytes(tuple(seg))

    def write(self, data):
        buf = self._buf()
        if isinstance(self.pos, SymInt):
            self.pos = self.pos.__index__()
        items = _items_of(data)
        if items is None:
            raise TypeError("a bytes-like object is required")
        items = list(items)
        was_append = self.pos >= len(buf)
        if self.pos > len(buf):
            buf.extend([0] * (self.pos - len(buf)))
        buf[self.pos:self.pos + len(items)] = items
        if self.fs.logging:
            self.fs.log.append((self.path, self.pos, tuple(items), was_append))
        self.pos += len(items)
        return len(items)

    def flush(self):
        pass

    def truncate(self, size=None):
        buf = self._buf()
        if size is None:
            size = self.pos
        if isinstance(size, SymInt):
            size = size.__index__()
        del buf[size:]
        if self.fs.logging:
            self.fs.log.append((self.path, "truncate", (), False))
        return size

    def fileno(self):
        return self

    def close(self):
        self.closed = True

    def __enter__(self):
        return self

    def __exit__(self, *a):
        self.close()


def open_(path, mode="r", *a, **k):
    return SymFile(FS, path, mode)


# -- os -------------------------------------------------------------------------


class _Path(object):
    join = staticmethod(_os.path.join)
    dirname = staticmethod(_os.path.dirname)
    basename = staticmethod(_os.path.basename)
    abspath = staticmethod(_os.path.abspath)

    @staticmethod
    def isfile(p):
        return p in FS.files

    @staticmethod
    def isdir(p):
        return p in FS.dirs

    @staticmethod
    def exists(p):
        return p in FS.files or p in FS.dirs


path = _Path()
SEEK_SET = _os.SEEK_SET
SEEK_CUR = _os.SEEK_CUR
SEEK_END = _os.SEEK_END
sep = _os.sep
error = OSError


def makedirs(p, *a, **k):
    if p in FS.dirs:
        if k.get("exist_ok"):
            return
        raise OSError(_errno.EEXIST, "File exists", p)
    FS.dirs.add(p)


def remove(p):
    if p not in FS.files:
        raise OSError(_errno.ENOENT, "No such file or directory", p)
    del FS.files[p]


unlink = remove


def listdir(p):
    out = []
    for f in FS.files:
        if _os.path.dirname(f) == p:
            out.append(_os.path.basename(f))
    return out


def __getattr__(name):
    raise Unsupported("os.%s is not modelled" % name)
