"""Byte-level re-implementation of struct.pack/unpack (native mode, native
alignment) over SymBytes.  Layout (sizes, alignment, byte order) is derived
from the real `struct` module at import time, not hard-coded, and a
differential self-test against the real module is part of every check."""
import struct as _real
import sys

from symx.core import SymBytes, SymInt, Unsupported, _items_of

error = _real.error
calcsize = _real.calcsize

_LITTLE = sys.byteorder == "little"
_INT_CODES = "bBhHiIlLqQnN?"


def _parse(fmt):
    """-> list of (code, count, offset, size) and the total size"""
    if isinstance(fmt, bytes):
        fmt = fmt.decode()
    fmt = fmt.replace(" ", "")
    order = "@"
    if fmt and fmt[0] in "@=<>!":
        order = fmt[0]
        fmt = fmt[1:]
    if order != "@":
        raise Unsupported("struct byte-order prefix %r" % order)
    fields = []
    off = 0
    i = 0
    while i < len(fmt):
        j = i
        while fmt[j].isdigit():
            j += 1
        count = int(fmt[i:j]) if j > i else 1
        code = fmt[j]
        i = j + 1
        if code in "sp":
            fields.append((code, count, off, count))
            off += count
        elif code == "x":
            off += count
        elif code in _INT_CODES or code == "c":
            size = _real.calcsize(code)
            align = _real.calcsize("c" + code) - size   # native alignment of the code
            for _ in range(count):
                if align and off % align:
                    off += align - off % align
                fields.append((code, 1, off, size))
                off += size
        else:
            raise Unsupported("struct code %r" % code)
    total = off
    if total != _real.calcsize(fmt):
        raise Unsupported("layout mismatch for %r: %d vs %d" % (fmt, total, _real.calcsize(fmt)))
    return fields, total


_CACHE = {}


def _layout(fmt):
    r = _CACHE.get(fmt)
    if r is None:
        r = _CACHE[fmt] = _parse(fmt)
    return r


def _is_plain(v):
    return isinstance(v, (int, bytes, bool)) and not isinstance(v, SymInt)


def pack(fmt, *values):
    fields, total = _layout(fmt)
    if len(values) != len(fields):
        raise error("pack expected %d items for packing (got %d)" % (len(fields), len(values)))
    out = [0] * total
    for (code, count, off, size), v in zip(fields, values):
        if code in "sp":
            items = _items_of(v)
            if items is None:
                raise error("argument for 's' must be a bytes object")
            if code == "p":
                n = min(len(items), count - 1, 255)
                out[off] = n
                out[off + 1:off + 1 + n] = items[:n]
            else:
                n = min(len(items), count)
                out[off:off + n] = items[:n]
        elif code == "c":
            items = _items_of(v)
            if items is None or len(items) != 1:
                raise error("char format requires a bytes object of length 1")
            out[off] = items[0]
        else:
            if isinstance(v, SymInt):
                raise Unsupported("symbolic integer in struct.pack")
            if code == "?":
                v = 1 if v else 0
            # range check through the real module (raises struct.error like it would)
            raw = _real.pack(code, v)
            out[off:off + size] = raw
    return SymBytes(tuple(out))


def unpack(fmt, data):
    fields, total = _layout(fmt)
    items = _items_of(data)
    if items is None:
        raise TypeError("a bytes-like object is required, not %r" % type(data).__name__)
    if len(items) != total:
        raise error("unpack requires a buffer of %d bytes" % total)
    res = []
    for code, count, off, size in fields:
        if code == "p":
            n = items[off]
            if not isinstance(n, int):
                raise Unsupported("symbolic pascal-string length")
            n = min(n, count - 1)
            res.append(SymBytes(items[off + 1:off + 1 + n]))
        elif code == "s":
            res.append(SymBytes(items[off:off + count]))
        elif code == "c":
            res.append(SymBytes(items[off:off + 1]))
        else:
            seg = items[off:off + size]
            for b in seg:
                if not isinstance(b, int):
                    raise Unsupported("symbolic byte inside an integer field")
            res.append(_real.unpack(code, bytes(seg))[0])
    return tuple(res)


def selftest():
    import random
    rnd = random.Random(7)
    n = 0
    for fmt in ("75pBI6Q", "I12p112x", "QQ", "12p4x", "3pBH2IQ", "5sBxQ", "BI", "BQ", "HI"):
        fields, total = _layout(fmt)
        for _ in range(60):
            vals = []
            for code, count, off, size in fields:
                if code in "sp":
                    ln = rnd.choice([0, 1, count - 1, count, count + 3, rnd.randint(0, count)])
                    vals.append(bytes(rnd.randrange(256) for _ in range(ln)))
                elif code == "?":
                    vals.append(rnd.choice([True, False]))
                else:
                    bits = 8 * size
                    signed = code in "bhilqn"
                    lo = -(1 << (bits - 1)) if signed else 0
                    hi = (1 << (bits - 1)) - 1 if signed else (1 << bits) - 1
                    vals.append(rnd.choice([lo, hi, 0, 1, rnd.randint(lo, hi)]))
            a = _real.pack(fmt, *vals)
            b = pack(fmt, *[SymBytes(tuple(v)) if isinstance(v, bytes) else v for v in vals])
            assert b.concrete() == a, (fmt, vals)
            ua = _real.unpack(fmt, a)
            ub = unpack(fmt, SymBytes(tuple(a)))
            ub = tuple(x.concrete() if isinstance(x, SymBytes) else x for x in ub)
            assert ua == ub, (fmt, ua, ub)
            n += 1
    return n
