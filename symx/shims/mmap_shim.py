"""mmap.mmap over a shim file: a read-only slice view."""
from symx.core import SymBytes, Unsupported

ACCESS_READ = 1
ACCESS_WRITE = 2
ACCESS_COPY = 3


class mmap(object):
    def __init__(self, fileno, length=0, access=ACCESS_READ, **kw):
        # fileno is the SymFile itself (SymFile.fileno() returns self)
        self.f = fileno
        self.closed = False
        if len(self.f.fs.files[self.f.path]) == 0:
            raise ValueError("cannot mmap an empty file")
        # mmap(fileno, length=0) maps the file as long as it is *now*; later appends are not visible
        self.size = len(self.f.fs.files[self.f.path])

    def __len__(self):
        return self.size

    def __getitem__(self, k):
        if self.closed:
            raise ValueError("mmap closed or invalid")
        buf = self.f.fs.files[self.f.path][:self.size]
        if isinstance(k, slice):
            return SymBytes(tuple(buf[k]))
        return buf[k]

    def close(self):
        self.closed = True
