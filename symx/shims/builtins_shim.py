"""Replacements for the builtins the repository uses on byte strings."""
import builtins as _b

from symx.core import SymBytes, SymInt, Unsupported, _items_of


class SymByteArray(object):
    """list-backed stand-in for bytearray (extend, slice get/set, len)."""

    def __init__(self, init=()):
        if isinstance(init, int):
            self.buf = [0] * init
        else:
            it = _items_of(init)
            self.buf = list(it if it is not None else init)

    def __len__(self):
        return len(self.buf)

    def extend(self, data):
        it = _items_of(data)
        if it is None:
            it = list(data)
        self.buf.extend(it)

    def append(self, x):
        self.buf.append(x)

    def __iadd__(self, data):
        self.extend(data)
        return self

    def __add__(self, data):
        r = SymByteArray(self.buf)
        r.extend(data)
        return r

    def __getitem__(self, k):
        if isinstance(k, slice):
            return SymBytes(tuple(self.buf[k]))
        return self.buf[k]

    def __setitem__(self, k, v):
        if isinstance(k, slice):
            it = _items_of(v)
            if it is None:
                it = list(v)
            self.buf[k] = list(it)
        else:
            self.buf[k] = v

    def __delitem__(self, k):
        del self.buf[k]

    def __iter__(self):
        return iter(self.buf)

    def clear(self):
        del self.buf[:]

    def __eq__(self, o):
        return SymBytes(tuple(self.buf)) == o

    __hash__ = None

    def __bool__(self):
        return len(self.buf) > 0


def bytearray_(*a):
    return SymByteArray(*a)


def isinstance_(obj, cls):
    """a byte-string proxy answers as `bytes` (and a str proxy as `str`), so the code takes the branch it
    takes for the values the proxy stands for"""
    if isinstance(obj, SymBytes):
        kind = str if obj._kind == "str" else bytes
        if cls is kind or (isinstance(cls, tuple) and kind in cls):
            return True
        if cls in (bytes, str) or (isinstance(cls, tuple) and (bytes in cls or str in cls)):
            return False
    return _b.isinstance(obj, cls)


def selftest():
    import random
    rnd = random.Random(3)
    ref = _b.bytearray()
    sh = SymByteArray()
    for _ in range(300):
        op = rnd.randrange(3)
        if op == 0:
            d = bytes(rnd.randrange(256) for _ in range(rnd.choice([0, 1, 16, 128])))
            ref.extend(d)
            sh.extend(SymBytes(tuple(d)))
        elif op == 1 and len(ref) >= 16:
            k = rnd.randrange(0, len(ref) - 15)
            d = bytes(rnd.randrange(256) for _ in range(16))
            ref[k:k + 16] = d
            sh[k:k + 16] = SymBytes(tuple(d))
        else:
            k = rnd.randrange(0, len(ref) + 40)
            a = ref[k:k + 16]
            b = sh[k:k + 16]
            assert bytes(a) == b.concrete(), (k, a, b)
            assert bool(a) == bool(b)
        assert len(ref) == len(sh)
    return 300
