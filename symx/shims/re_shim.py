"""`re` for symbolic subjects: a backtracking matcher over the tree produced by
the interpreter's own regex parser (re._parser), with every character test a
solver-decided condition.  Alternatives are tried in sre's priority order
(leftmost, greedy/lazy as written), so on each path the first end position
produced is the one `re` would return.  Concrete subjects go to the real `re`.
A differential self-test against `re` is part of every check."""
import re as _re

try:
    import re._parser as _parser
    import re._constants as _c
except ImportError:  # pragma: no cover (python < 3.11)
    import sre_parse as _parser
    import sre_constants as _c

import z3

from symx.core import (SymBytes, SymBool, Unsupported, _items_of, _mk_bool, byte_eq,
                       s_and, s_not, s_or, CUR)
import symx.core as core

I = IGNORECASE = _re.I
M = MULTILINE = _re.M
S = DOTALL = _re.S
error = _re.error
escape = _re.escape


def _excluded(c):
    p = core.CUR
    if p is None or isinstance(c, int):
        return None, None
    return p.byte_excl.get(c.get_id()), p.byte_dom.get(c.get_id())


def _in_range(c, lo, hi):
    if isinstance(c, int):
        return lo <= c <= hi
    ex, dom = _excluded(c)
    if dom is not None:
        inside = [d for d in dom if lo <= d <= hi]
        if not inside:
            return False
        if len(inside) == len(dom):
            return True
    if ex is not None:
        if all(v in ex for v in range(lo, hi + 1)):
            return False
    if lo == hi:
        return _mk_bool(byte_eq(c, lo))
    if lo == 0:
        return _mk_bool(z3.ULE(c, z3.BitVecVal(hi, 8)))
    if hi == 255:
        return _mk_bool(z3.UGE(c, z3.BitVecVal(lo, 8)))
    return _mk_bool(z3.And(z3.UGE(c, z3.BitVecVal(lo, 8)), z3.ULE(c, z3.BitVecVal(hi, 8))))


def _category(cat, c):
    if cat == _c.CATEGORY_DIGIT:
        return _in_range(c, 48, 57)
    if cat == _c.CATEGORY_NOT_DIGIT:
        return s_not(_in_range(c, 48, 57))
    if cat == _c.CATEGORY_SPACE:
        return s_or(_in_range(c, 9, 13), _in_range(c, 32, 32))
    if cat == _c.CATEGORY_NOT_SPACE:
        return s_not(s_or(_in_range(c, 9, 13), _in_range(c, 32, 32)))
    if cat == _c.CATEGORY_WORD:
        return s_or(_in_range(c, 48, 57), _in_range(c, 65, 90), _in_range(c, 97, 122), _in_range(c, 95, 95))
    if cat == _c.CATEGORY_NOT_WORD:
        return s_not(s_or(_in_range(c, 48, 57), _in_range(c, 65, 90), _in_range(c, 97, 122), _in_range(c, 95, 95)))
    raise Unsupported("regex category %r" % (cat,))


def _lit(c, v, icase):
    r = _mk_bool(byte_eq(c, v))
    if icase:
        if 65 <= v <= 90:
            r = s_or(r, _mk_bool(byte_eq(c, v + 32)))
        elif 97 <= v <= 122:
            r = s_or(r, _mk_bool(byte_eq(c, v - 32)))
    return r


def _set_member(items, c, icase):
    neg = False
    alts = []
    for op, av in items:
        if op == _c.NEGATE:
            neg = True
        elif op == _c.LITERAL:
            alts.append(_lit(c, av, icase))
        elif op == _c.RANGE:
            lo, hi = av
            alts.append(_in_range(c, lo, hi))
            if icase:
                # letters of the range also match in the other case
                l2, h2 = max(lo, 65), min(hi, 90)
                if l2 <= h2:
                    alts.append(_in_range(c, l2 + 32, h2 + 32))
                l2, h2 = max(lo, 97), min(hi, 122)
                if l2 <= h2:
                    alts.append(_in_range(c, l2 - 32, h2 - 32))
        elif op == _c.CATEGORY:
            alts.append(_category(av, c))
        else:
            raise Unsupported("regex set item %r" % (op,))
    r = s_or(*alts)
    return s_not(r) if neg else r


class _Matcher(object):
    def __init__(self, tree, flags, items):
        self.tree = tree
        self.flags = flags
        self.s = items
        self.n = len(items)
        self.icase = bool(flags & _re.I)
        self.groups = {}

    def char(self, op, av, pos):
        if pos >= self.n:
            return False
        c = self.s[pos]
        if op == _c.LITERAL:
            return _lit(c, av, self.icase)
        if op == _c.NOT_LITERAL:
            return s_not(_lit(c, av, self.icase))
        if op == _c.ANY:
            if self.flags & _re.S:
                return True
            return s_not(_mk_bool(byte_eq(c, 10)))
        if op == _c.IN:
            return _set_member(av, c, self.icase)
        raise Unsupported("regex char op %r" % (op,))

    def seq(self, seq, i, pos):
        if i == len(seq):
            yield pos
            return
        op, av = seq[i]
        for p2 in self.node(op, av, pos):
            for p3 in self.seq(seq, i + 1, p2):
                yield p3

    def node(self, op, av, pos):
        if op in (_c.LITERAL, _c.NOT_LITERAL, _c.ANY, _c.IN):
            if self.char(op, av, pos):      # SymBool -> fork
                yield pos + 1
            return
        if op == _c.SUBPATTERN:
            group, add_flags, del_flags, sub = av
            if add_flags or del_flags:
                raise Unsupported("inline regex flags")
            for p2 in self.seq(sub, 0, pos):
                old = self.groups.get(group)
                self.groups[group] = (pos, p2)
                yield p2
                if old is None:
                    self.groups.pop(group, None)
                else:
                    self.groups[group] = old
            return
        if op == _c.BRANCH:
            _, alts = av
            for alt in alts:
                for p2 in self.seq(alt, 0, pos):
                    yield p2
            return
        if op in (_c.MAX_REPEAT, _c.MIN_REPEAT):
            lo, hi, sub = av
            greedy = op == _c.MAX_REPEAT
            for p2 in self.repeat(sub, lo, hi, greedy, 0, pos):
                yield p2
            return
        if op == _c.AT:
            if av == _c.AT_BEGINNING or av == _c.AT_BEGINNING_STRING:
                if pos == 0:
                    yield pos
                elif av == _c.AT_BEGINNING and (self.flags & _re.M):
                    if _mk_bool(byte_eq(self.s[pos - 1], 10)):
                        yield pos
                return
            if av == _c.AT_END:
                if pos == self.n:
                    yield pos
                elif pos == self.n - 1 and _mk_bool(byte_eq(self.s[pos], 10)):
                    yield pos
                elif (self.flags & _re.M) and _mk_bool(byte_eq(self.s[pos], 10)):
                    yield pos
                return
            if av == _c.AT_END_STRING:
                if pos == self.n:
                    yield pos
                return
            raise Unsupported("regex anchor %r" % (av,))
        raise Unsupported("regex op %r" % (op,))

    def repeat(self, sub, lo, hi, greedy, count, pos):
        can_more = hi == _c.MAXREPEAT or count < hi
        if greedy:
            if can_more:
                for p2 in self.seq(sub, 0, pos):
                    if p2 == pos and count >= lo:
                        continue
                    for p3 in self.repeat(sub, lo, hi, greedy, count + 1, p2):
                        yield p3
            if count >= lo:
                yield pos
        else:
            if count >= lo:
                yield pos
            if can_more:
                for p2 in self.seq(sub, 0, pos):
                    if p2 == pos and count >= lo:
                        continue
                    for p3 in self.repeat(sub, lo, hi, greedy, count + 1, p2):
                        yield p3


class SymMatch(object):
    def __init__(self, subject_items, start, end, groups=None):
        self._s = subject_items
        self._span = (start, end)
        self._groups = groups or {}

    def group(self, *idx):
        if not idx:
            idx = (0,)
        out = []
        for k in idx:
            if k == 0:
                a, b = self._span
                out.append(SymBytes(self._s[a:b]))
            else:
                g = self._groups.get(k)
                out.append(None if g is None else SymBytes(self._s[g[0]:g[1]]))
        return out[0] if len(out) == 1 else tuple(out)

    def start(self, k=0):
        return self._span[0] if k == 0 else self._groups[k][0]

    def end(self, k=0):
        return self._span[1] if k == 0 else self._groups[k][1]

    def span(self, k=0):
        return (self.start(k), self.end(k))

    def __bool__(self):
        return True


class SymPattern(object):
    def __init__(self, pattern, flags=0):
        pi = _items_of(pattern)
        if pi is not None and not isinstance(pattern, (bytes, bytearray)):
            if not pattern.is_concrete():
                raise Unsupported("symbolic regex pattern")
            pattern = pattern.concrete()
        self.pattern = pattern
        self.flags = flags
        self._real = _re.compile(pattern, flags)
        self._tree = None

    def _items(self, subject):
        return _items_of(subject)

    def _run(self, subject, anchored, full=False, force=False):
        if isinstance(subject, str):
            f = self._real.fullmatch if full else (self._real.match if anchored else self._real.search)
            return f(subject)
        items = self._items(subject)
        if items is None:
            raise TypeError("expected string or bytes-like object")
        if not force and all(isinstance(x, int) for x in items):
            b = bytes(items)
            f = self._real.fullmatch if full else (self._real.match if anchored else self._real.search)
            m = f(b)
            if m is None:
                return None
            groups = {}
            for k in range(1, (self._real.groups or 0) + 1):
                if m.span(k) != (-1, -1):
                    groups[k] = m.span(k)
            return SymMatch(items, m.start(), m.end(), groups)
        if self._tree is None:
            self._tree = _parser.parse(self.pattern, self.flags)
        tree = list(self._tree)
        starts = [0] if anchored else range(0, len(items) + 1)
        for st in starts:
            mt = _Matcher(tree, self._tree.state.flags | self.flags, items)
            for end in mt.seq(tree, 0, st):
                if full and end != len(items):
                    continue
                return SymMatch(items, st, end, dict(mt.groups))
        return None

    def search(self, subject, pos=0):
        if pos:
            return self._search_from(subject, pos)
        return self._run(subject, False)

    def _search_from(self, subject, pos):
        """leftmost match starting at offset >= pos (anchors still see the whole subject)"""
        if isinstance(subject, (str, bytes)):
            return self._real.search(subject, pos)
        items = self._items(subject)
        if all(isinstance(x, int) for x in items):
            m = self._real.search(bytes(items), pos)
            if m is None:
                return None
            groups = {}
            for k in range(1, (self._real.groups or 0) + 1):
                if m.span(k) != (-1, -1):
                    groups[k] = m.span(k)
            return SymMatch(items, m.start(), m.end(), groups)
        if self._tree is None:
            self._tree = _parser.parse(self.pattern, self.flags)
        tree = list(self._tree)
        for st in range(pos, len(items) + 1):
            mt = _Matcher(tree, self._tree.state.flags | self.flags, items)
            for end in mt.seq(tree, 0, st):
                return SymMatch(items, st, end, dict(mt.groups))
        return None

    def finditer(self, subject):
        n = len(subject)
        pos = 0
        while pos <= n:
            m = self._search_from(subject, pos)
            if m is None:
                return
            yield m
            pos = m.end() if m.end() > m.start() else m.end() + 1

    def findall(self, subject):
        out = []
        ng = self._real.groups or 0
        for m in self.finditer(subject):
            if ng == 0:
                out.append(m.group())
            elif ng == 1:
                g = m.group(1)
                out.append(g if g is not None else (b"" if not isinstance(subject, str) else ""))
            else:
                out.append(tuple(m.group(k) for k in range(1, ng + 1)))
        return out

    def match(self, subject):
        return self._run(subject, True)

    def fullmatch(self, subject):
        return self._run(subject, True, True)


def compile(pattern, flags=0):
    if isinstance(pattern, SymPattern):
        return pattern
    return SymPattern(pattern, flags)


def search(pattern, subject, flags=0):
    return compile(pattern, flags).search(subject)


def match(pattern, subject, flags=0):
    return compile(pattern, flags).match(subject)


def findall(pattern, subject, flags=0):
    return compile(pattern, flags).findall(subject)


def finditer(pattern, subject, flags=0):
    return compile(pattern, flags).finditer(subject)


def __getattr__(name):
    raise Unsupported("re.%s is not modelled" % name)


def selftest(extra_subjects=()):
    """matcher vs the real `re` on concrete subjects pushed through the symbolic code path"""
    import random
    rnd = random.Random(11)
    fam = {
        "domain": b"(s:[a-zA-Z]+\\|(t:[0-9]+\\|)?(h:[^\\|]+\\|(h:[^\\|]+\\|)|h:(localhost|(\\d{1,3}\\.){3}\\d{1,3}|\\[[\\da-f]*:[\\da-f:]*\\])\\|))",
        "subdomain": b"(s:[a-zA-Z]+\\|(t:[0-9]+\\|)?(h:[^\\|]+\\|(h:[^\\|]+\\|)+|h:(localhost|(\\d{1,3}\\.){3}\\d{1,3}|\\[[\\da-f]*:[\\da-f:]*\\])\\|))",
        "path1": b"(s:[a-zA-Z]+\\|(t:[0-9]+\\|)?(h:[^\\|]+\\|(h:[^\\|]+\\|)+|h:(localhost|(\\d{1,3}\\.){3}\\d{1,3}|\\[[\\da-f]*:[\\da-f:]*\\])\\|)(p:[^\\|]+\\|){1})",
        "path2": b"(s:[a-zA-Z]+\\|(t:[0-9]+\\|)?(h:[^\\|]+\\|(h:[^\\|]+\\|)+|h:(localhost|(\\d{1,3}\\.){3}\\d{1,3}|\\[[\\da-f]*:[\\da-f:]*\\])\\|)(p:[^\\|]+\\|){2})",
        "never": b"$^",
        "misc": b"a(b|c)*?d+.e$",
    }
    stems = [b"s:http|", b"s:https|", b"S:HTTP|", b"t:80|", b"t:8a|", b"h:com|", b"h:www|", b"h:localhost|", b"h:LocalHost|",
             b"h:127.0.0.1|", b"h:1.2.3|", b"h:[::1]|", b"h:[AB:0f]|", b"h:x|", b"h:|", b"p:a|", b"p:|", b"p:b c|", b"q:x=1|", b"\n", b"abd", b"acbdd\ne"]
    subjects = list(extra_subjects)
    for _ in range(400):
        k = rnd.randint(0, 7)
        subjects.append(b"".join(rnd.choice(stems) for _ in range(k)))
    for _ in range(100):
        subjects.append(bytes(rnd.choice(b"abcdes:h|t0\n") for _ in range(rnd.randint(0, 9))))
    n = 0
    for name, pat in fam.items():
        for fl in (0, _re.I):
            sp = SymPattern(pat, fl)
            for sub in subjects:
                m1 = sp._real.search(sub)
                m2 = sp._run(SymBytes(tuple(sub)), False, force=True)
                a = None if m1 is None else (m1.span(), m1.group())
                b = None if m2 is None else (m2.span(), m2.group().concrete())
                assert a == b, (name, fl, sub, a, b)
                n += 1
    return n
